package main

// Translation of specification expressions to SMT terms.

import (
	"fmt"
	"go/constant"
	"go/types"
	"math/big"
	"strings"

	"golang.org/x/tools/go/ssa"
)

type specVal struct {
	t   *Term
	typ types.Type // nil for untyped nil
}

var (
	tInt  = types.Typ[types.Int]
	tBool = types.Typ[types.Bool]
	tStr  = types.Typ[types.String]
	tByte = types.Typ[types.Uint8]
)

type SpecEnv struct {
	fx     *FnExec
	pkg    string
	vars   map[string]specVal
	st     *State
	old    *State
	locals func(name string) (specVal, bool)
	where  string
	fvs    map[string]fvBinding // captured variables (closures)
	inSpecBody bool // translating the body of a spec function (no assumptions may be emitted)
	noAutoPats bool
	macroDepth int
	entrySt     *State
	entryLocals func(name string) (specVal, bool)
	mapIt       *Term        // iterator of the map-range loop whose invariant is being evaluated
	mapItInfo   *mapIterInfo // its map
	resSel      int          // 1 + result selected by an enclosing res<i>(...) (0: none)
}

type fvBinding struct {
	ptr *Term
	typ types.Type
}

type specErr string

func (env *SpecEnv) fail(f string, a ...interface{}) {
	panic(specErr(fmt.Sprintf("spec error (%s): ", env.where) + fmt.Sprintf(f, a...)))
}

func (env *SpecEnv) with(name string, v specVal) *SpecEnv {
	n := *env
	n.vars = map[string]specVal{}
	for k, x := range env.vars {
		n.vars[k] = x
	}
	n.vars[name] = v
	return &n
}

func (env *SpecEnv) boolExpr(e *SExpr) *Term {
	v := env.expr(e)
	if v.t.S != SBool {
		env.fail("expected boolean: %s", e)
	}
	return v.t
}

func isStringT(t types.Type) bool {
	if t == nil {
		return false
	}
	b, ok := t.Underlying().(*types.Basic)
	return ok && b.Info()&types.IsString != 0
}

func (env *SpecEnv) expr(e *SExpr) specVal {
	c := env.fx.c
	switch e.Kind {
	case "int":
		v, ok := new(big.Int).SetString(e.Int, 0)
		if !ok {
			env.fail("bad integer %s", e.Int)
		}
		return specVal{BigLit(v), tInt}
	case "char":
		return specVal{IntLit(int64(e.Str[0])), tByte}
	case "string":
		return specVal{strConst(c, e.Str), tStr}
	case "ident":
		return env.ident(e.Name)
	case "unary":
		x := env.expr(e.Args[0])
		switch e.Name {
		case "!":
			return specVal{Not(x.t), tBool}
		case "-":
			return specVal{Neg(x.t), x.typ}
		}
	case "binary":
		return env.binary(e)
	case "index":
		x := env.expr(e.Args[0])
		i := env.expr(e.Args[1])
		return env.index(x, i.t)
	case "slice":
		x := env.expr(e.Args[0])
		var lo, hi *Term
		if e.Args[1] != nil {
			lo = env.expr(e.Args[1]).t
		} else {
			lo = IntLit(0)
		}
		switch {
		case isStringT(x.typ):
			if e.Args[2] != nil {
				hi = env.expr(e.Args[2]).t
			} else {
				hi = StrLen(x.t)
			}
			return specVal{MkStr(Shl(StrArr(x.t), lo), Sub(hi, lo)), x.typ}
		default:
			if _, ok := x.typ.Underlying().(*types.Slice); ok {
				if e.Args[2] != nil {
					hi = env.expr(e.Args[2]).t
				} else {
					hi = SlcLen(x.t)
				}
				return specVal{MkSlc(SlcBase(x.t), Add(SlcOff(x.t), lo), Sub(hi, lo), Sub(SlcCap(x.t), lo)), x.typ}
			}
		}
		env.fail("cannot slice %s", e.Args[0])
	case "field":
		// package-qualified constant?
		if e.Args[0].Kind == "ident" {
			if _, isVar := env.lookup(e.Args[0].Name); !isVar {
				if v, ok := env.pkgQualified(e.Args[0].Name, e.Name); ok {
					return v
				}
			}
		}
		x := env.expr(e.Args[0])
		return env.field(x, e.Name)
	case "call":
		return env.call(e)
	}
	env.fail("cannot translate %s", e)
	return specVal{}
}

func (env *SpecEnv) lookup(name string) (specVal, bool) {
	if v, ok := env.vars[name]; ok {
		return v, true
	}
	if b, ok := env.fvs[name]; ok && env.st != nil {
		// captured variable of a closure: read through its cell in the current state
		if _, isS := b.typ.Underlying().(*types.Struct); isS {
			return specVal{env.fx.readObj(env.st, b.ptr, b.typ), b.typ}, true
		}
		hn, hs := env.fx.pheapName(b.typ)
		return specVal{Select(env.fx.heapGet(env.st, hn, hs), b.ptr), b.typ}, true
	}
	if env.locals != nil {
		if v, ok := env.locals(name); ok {
			return v, true
		}
	}
	return specVal{}, false
}

func (env *SpecEnv) ident(name string) specVal {
	if v, ok := env.lookup(name); ok {
		return v
	}
	switch name {
	case "true":
		return specVal{True, tBool}
	case "false":
		return specVal{False, tBool}
	case "nil":
		return specVal{IntLit(0), nil}
	}
	// package-level constant or variable of the contract's package
	if pp := env.fx.e.ppkgs[env.pkg]; pp != nil {
		if obj := pp.Types.Scope().Lookup(name); obj != nil {
			if v, ok := env.object(obj); ok {
				return v
			}
		}
	}
	// zero-ary spec function
	if sf := env.fx.e.findSpec(env.pkg, name); sf != nil && len(sf.Params) == 0 {
		return env.callSpec(sf, nil)
	}
	env.fail("unknown identifier %s", name)
	return specVal{}
}

func (env *SpecEnv) object(obj types.Object) (specVal, bool) {
	switch o := obj.(type) {
	case *types.Const:
		return env.constant(o.Val(), o.Type()), true
	case *types.Var:
		// package-level variable: value read from the global cell in the current state
		pkg := env.fx.e.pkgs[o.Pkg().Path()]
		if pkg == nil {
			return specVal{}, false
		}
		g, ok := pkg.Members[o.Name()].(*ssa.Global)
		if !ok {
			return specVal{}, false
		}
		ref := env.fx.globalRef(g)
		t := o.Type()
		if _, isStruct := t.Underlying().(*types.Struct); isStruct {
			return specVal{env.fx.readObj(env.st, ref, t), t}, true
		}
		name, s := env.fx.pheapName(t)
		return specVal{Select(env.fx.heapGet(env.st, name, s), ref), t}, true
	}
	return specVal{}, false
}

func (env *SpecEnv) constant(v constant.Value, t types.Type) specVal {
	switch v.Kind() {
	case constant.Bool:
		return specVal{BoolLit(constant.BoolVal(v)), tBool}
	case constant.Int:
		bi, _ := new(big.Int).SetString(v.ExactString(), 10)
		if b, ok := t.Underlying().(*types.Basic); ok && b.Info()&types.IsUntyped != 0 {
			t = tInt
		}
		return specVal{BigLit(bi), t}
	case constant.String:
		return specVal{strConst(env.fx.c, constant.StringVal(v)), tStr}
	}
	env.fail("unsupported constant kind")
	return specVal{}
}

func (env *SpecEnv) pkgQualified(pkgName, name string) (specVal, bool) {
	pp := env.fx.e.ppkgs[env.pkg]
	if pp == nil {
		return specVal{}, false
	}
	for _, ip := range pp.Imports {
		if ip.Name == pkgName {
			if obj := ip.Types.Scope().Lookup(name); obj != nil {
				return env.object(obj)
			}
		}
	}
	// any loaded package by name (for global spec files)
	for _, ip := range env.fx.e.ppkgs {
		if ip.Name == pkgName && ip.Types != nil {
			if obj := ip.Types.Scope().Lookup(name); obj != nil {
				return env.object(obj)
			}
		}
	}
	return specVal{}, false
}

func (env *SpecEnv) index(x specVal, i *Term) specVal {
	switch {
	case isStringT(x.typ):
		return specVal{StrAt(x.t, i), tByte}
	case x.typ == seqType:
		return specVal{Select(x.t, i), tInt}
	case x.typ == setType:
		return specVal{Select(x.t, i), tBool}
	}
	switch u := x.typ.Underlying().(type) {
	case *types.Slice:
		if arr := pureSliceArr(x.t); arr != nil {
			// a slice returned by a pure function (spec level): its elements do not live in the heap
			return specVal{Select(arr, i), u.Elem()}
		}
		name, s := env.fx.elemHeapName(u.Elem())
		h := env.fx.heapGet(env.st, name, s)
		return specVal{env.fx.elemAt(h, x.t, i), u.Elem()}
	case *types.Array:
		return specVal{Select(x.t, i), u.Elem()}
	case *types.Map:
		dn, vn, ds, vs := env.fx.mapHeapNames(u)
		h := env.fx.heapGet(env.st, vn, vs)
		d := env.fx.heapGet(env.st, dn, ds)
		k := env.fx.mapKey(i, u.Key())
		// a missing key reads as the zero value
		return specVal{Ite(And(Neq(x.t, IntLit(0)), Select(Select(d, x.t), k)), Select(Select(h, x.t), k), env.fx.e.zero(u.Elem())), u.Elem()}
	}
	env.fail("cannot index value of type %s", x.typ)
	return specVal{}
}

func (env *SpecEnv) field(x specVal, name string) specVal {
	if x.typ == nil {
		env.fail("field %s of untyped value", name)
	}
	t := x.typ
	isPtr := false
	if p, ok := t.Underlying().(*types.Pointer); ok {
		t = p.Elem()
		isPtr = true
	}
	var pkg *types.Package
	if pp := env.fx.e.ppkgs[env.pkg]; pp != nil {
		pkg = pp.Types
	}
	if n, ok := t.(*types.Named); ok && n.Obj().Pkg() != nil {
		pkg = n.Obj().Pkg() // allow access to unexported fields in specs
	}
	obj, path, _ := types.LookupFieldOrMethod(t, true, pkg, name)
	fv, ok := obj.(*types.Var)
	if !ok || !fv.IsField() {
		env.fail("no field %s in %s", name, x.typ)
	}
	cur := x.t
	ct := t
	ptr := isPtr
	for _, idx := range path {
		si := env.fx.e.structOf(ct)
		ft := si.st.Field(idx).Type()
		if ptr {
			if _, nested := ft.Underlying().(*types.Struct); nested {
				cur = env.fx.emb(cur, si, idx)
				ct = ft
				continue
			}
			cur = env.fx.readField(env.st, cur, si, idx)
			ct = ft
			ptr = false
			// values stored in a well-typed heap satisfy their type's shape facts
			// (references below the allocation counter, lengths non-negative ...)
			if env.st != nil && !env.inSpecBody && !strings.Contains(cur.String(), "!q") && !strings.Contains(cur.String(), "!e") {
				env.fx.assumeType(env.st, cur, ct)
			}
			if p, ok := ct.Underlying().(*types.Pointer); ok {
				if _, isS := p.Elem().Underlying().(*types.Struct); isS {
					// continue through pointer for the next path element
					_ = p
				}
			}
		} else {
			cur = Sel(si.sels[idx], cur)
			ct = ft
		}
		// implicit dereference of embedded pointers
		if p, ok := ct.Underlying().(*types.Pointer); ok && !ptr {
			if _, isS := p.Elem().Underlying().(*types.Struct); isS && idx != path[len(path)-1] {
				ct = p.Elem()
				ptr = true
			}
		}
	}
	if ptr {
		// path ended on an embedded struct accessed by pointer: materialise value
		return specVal{env.fx.readObj(env.st, cur, ct), ct}
	}
	return specVal{cur, ct}
}

func isIntT(t types.Type) bool {
	if t == nil {
		return false
	}
	b, ok := t.Underlying().(*types.Basic)
	return ok && b.Info()&types.IsInteger != 0
}

func (env *SpecEnv) binary(e *SExpr) specVal {
	op := e.Name
	switch op {
	case "&&":
		return specVal{And(env.boolExpr(e.Args[0]), env.boolExpr(e.Args[1])), tBool}
	case "||":
		return specVal{Or(env.boolExpr(e.Args[0]), env.boolExpr(e.Args[1])), tBool}
	case "==>":
		return specVal{Implies(env.boolExpr(e.Args[0]), env.boolExpr(e.Args[1])), tBool}
	case "<==>":
		return specVal{Eq(env.boolExpr(e.Args[0]), env.boolExpr(e.Args[1])), tBool}
	}
	a := env.expr(e.Args[0])
	b := env.expr(e.Args[1])
	// untyped nil adapts
	if a.typ == nil && b.typ != nil {
		a = specVal{env.fx.e.zero(b.typ), b.typ}
	}
	if b.typ == nil && a.typ != nil {
		b = specVal{env.fx.e.zero(a.typ), a.typ}
	}
	// comparing an interface value with a pointer: the pointer is converted implicitly (as Go does)
	if a.typ != nil && b.typ != nil && a.t.S != b.t.S {
		if _, ok := b.typ.Underlying().(*types.Pointer); ok && a.t.S == SIfc {
			b = specVal{Ite(Eq(b.t, IntLit(0)), MkIfc(IntLit(int64(env.fx.e.typeTag(b.typ))), IntLit(0)), env.fx.makeIface(b.t, b.typ)), a.typ}
		} else if _, ok := a.typ.Underlying().(*types.Pointer); ok && b.t.S == SIfc {
			a = specVal{Ite(Eq(a.t, IntLit(0)), MkIfc(IntLit(int64(env.fx.e.typeTag(a.typ))), IntLit(0)), env.fx.makeIface(a.t, a.typ)), b.typ}
		}
	}
	switch op {
	case "==", "!=":
		var r *Term
		if a.t.S != b.t.S {
			env.fail("comparing %s with %s in %s", a.t.S, b.t.S, e)
		}
		if a.typ != nil {
			r = env.fx.valEq(a.t, b.t, a.typ)
		} else {
			r = Eq(a.t, b.t)
		}
		if op == "!=" {
			r = Not(r)
		}
		return specVal{r, tBool}
	case "<", "<=", ">", ">=":
		if isStringT(a.typ) {
			switch op {
			case "<":
				return specVal{strLt(env.fx.c, a.t, b.t), tBool}
			case ">":
				return specVal{strLt(env.fx.c, b.t, a.t), tBool}
			case "<=":
				return specVal{Not(strLt(env.fx.c, b.t, a.t)), tBool}
			case ">=":
				return specVal{Not(strLt(env.fx.c, a.t, b.t)), tBool}
			}
		}
		switch op {
		case "<":
			return specVal{Lt(a.t, b.t), tBool}
		case "<=":
			return specVal{Le(a.t, b.t), tBool}
		case ">":
			return specVal{Gt(a.t, b.t), tBool}
		case ">=":
			return specVal{Ge(a.t, b.t), tBool}
		}
	case "+":
		if isStringT(a.typ) {
			env.fail("string concatenation in specs: use cat(a,b) relations")
		}
		return specVal{Add(a.t, b.t), a.typ}
	case "-":
		return specVal{Sub(a.t, b.t), a.typ}
	case "*":
		return specVal{Mul(a.t, b.t), a.typ}
	case "/":
		// mathematical floor division for positive divisors (specs use it on naturals)
		return specVal{Div(a.t, b.t), a.typ}
	case "%":
		return specVal{Mod(a.t, b.t), a.typ}
	}
	env.fail("unsupported operator %s", op)
	return specVal{}
}

func (e *Engine) findSpec(pkg, name string) *SpecFunc {
	if s, ok := e.specs[pkg+"\x00"+name]; ok {
		return s
	}
	// qualified: pkgname.spec refers to a spec function of another package's contract file
	if i := strings.Index(name, "."); i > 0 {
		pn, sn := name[:i], name[i+1:]
		for k, s := range e.specs {
			j := strings.Index(k, "\x00")
			if j > 0 && k[j+1:] == sn && (k[:j] == pn || strings.HasSuffix(k[:j], "/"+pn)) {
				return s
			}
		}
	}
	if s, ok := e.specs["\x00"+name]; ok {
		return s
	}
	return nil
}

func (env *SpecEnv) bindVar(a *SExpr) (string, types.Type) {
	if a.Kind == "typed" {
		t, err := env.fx.e.resolveType(env.pkg, a.Name)
		if err != nil {
			env.fail("%v", err)
		}
		return a.Args[0].Name, t
	}
	if a.Kind != "ident" {
		env.fail("binder must be an identifier: %s", a)
	}
	return a.Name, tInt
}

func (env *SpecEnv) call(e *SExpr) specVal {
	fx := env.fx
	switch e.Name {
	case "old":
		if env.old == nil {
			env.fail("old() not available here")
		}
		n := *env
		n.st = env.old
		n.locals = nil
		n.vars = map[string]specVal{}
		for k, v := range fx.params {
			n.vars[k] = v
		}
		for k, v := range env.vars {
			n.vars[k] = v
		}
		return n.expr(e.Args[0])
	case "entry":
		// entry(e): the value of e when the loop was entered (before its first iteration)
		if env.entrySt == nil {
			env.fail("entry() is only available in loop invariants")
		}
		n := *env
		n.st = env.entrySt
		if env.entryLocals != nil {
			n.locals = env.entryLocals
		}
		return n.expr(e.Args[0])
	case "forall", "exists":
		binders, body, pats := splitQuant(e)
		if len(binders) < 1 || body == nil {
			env.fail("%s needs binders and a body", e.Name)
		}
		inner := env
		var bvs []*Term
		var rng []*Term
		if len(binders) == 3 && binders[0].Kind == "ident" {
			// forall(k, lo, hi, P)
			fx.c.nfresh++
			bv := Var(fmt.Sprintf("%s!q%d", binders[0].Name, fx.c.nfresh), SInt)
			lo := env.expr(binders[1]).t
			hi := env.expr(binders[2]).t
			inner = env.with(binders[0].Name, specVal{bv, tInt})
			bvs = append(bvs, bv)
			rng = append(rng, Le(lo, bv), Lt(bv, hi))
		} else {
			for _, a := range binders {
				name, typ := env.bindVar(a)
				fx.c.nfresh++
				bv := Var(fmt.Sprintf("%s!q%d", name, fx.c.nfresh), fx.e.sortOf(typ))
				inner = inner.with(name, specVal{bv, typ})
				bvs = append(bvs, bv)
				if tr := fx.typeInvQ(bv, typ); !tr.IsTrue() {
					rng = append(rng, tr)
				}
			}
		}
		b := inner.boolExpr(body)
		var pts [][]*Term
		for _, p := range pats {
			var one []*Term
			for _, a := range p.Args {
				one = append(one, inner.expr(a).t)
			}
			pts = append(pts, one)
		}
		if e.Name == "forall" {
			q := Forall(bvs, Implies(And(rng...), b))
			if len(pts) == 0 && len(bvs) == 1 && bvs[0].S == SInt && q.Op == "forall" && !env.noAutoPats {
				// no triggers given: the elements s[k] indexed by exactly the bound variable are the
				// natural ones (chosen here rather than left to each solver's heuristics)
				for _, c := range elemTriggers(b, bvs[0]) {
					pts = append(pts, []*Term{c})
				}
			}
			if len(pts) > 0 && q.Op == "forall" {
				q.Pats = pts[0]
				q.AltPats = pts[1:]
			}
			return specVal{q, tBool}
		}
		ex := Exists(bvs, And(append(rng, b)...))
		if ex.Op == "exists" && len(bvs) == 1 && bvs[0].S == SInt && !env.noAutoPats {
			// when the quantifier ends up negated (a goal, or a hypothesis under negation) the solver needs a
			// trigger: the elements s[k] indexed by exactly the bound variable, as for forall
			var pts [][]*Term
			for _, p := range pats {
				var one []*Term
				for _, a := range p.Args {
					one = append(one, inner.expr(a).t)
				}
				pts = append(pts, one)
			}
			if len(pts) == 0 {
				for _, c := range elemTriggers(b, bvs[0]) {
					pts = append(pts, []*Term{c})
				}
			}
			if len(pts) > 0 {
				ex.Pats = pts[0]
				ex.AltPats = pts[1:]
			}
		}
		return specVal{ex, tBool}
	case "len":
		x := env.expr(e.Args[0])
		switch {
		case isStringT(x.typ):
			return specVal{StrLen(x.t), tInt}
		default:
			switch u := x.typ.Underlying().(type) {
			case *types.Slice:
				return specVal{SlcLen(x.t), tInt}
			case *types.Array:
				return specVal{IntLit(u.Len()), tInt}
			}
		}
		env.fail("len of %s", x.typ)
	case "cap":
		x := env.expr(e.Args[0])
		return specVal{SlcCap(x.t), tInt}
	case "ite":
		c := env.boolExpr(e.Args[0])
		a := env.expr(e.Args[1])
		b := env.expr(e.Args[2])
		return specVal{Ite(c, a.t, b.t), a.typ}
	case "int", "int64", "uint64", "byte", "uint8", "uint", "int32", "uint32", "rune":
		x := env.expr(e.Args[0])
		t, _ := fx.e.resolveType(env.pkg, e.Name)
		return specVal{x.t, t}
	case "string":
		// string(bs): the string with the current contents of the byte slice
		x := env.expr(e.Args[0])
		if isStringT(x.typ) {
			return x
		}
		return specVal{fx.bytesToStr(env.st, x.t), tStr}
	case "min":
		a, b := env.expr(e.Args[0]), env.expr(e.Args[1])
		return specVal{Ite(Le(a.t, b.t), a.t, b.t), a.typ}
	case "max":
		a, b := env.expr(e.Args[0]), env.expr(e.Args[1])
		return specVal{Ite(Le(a.t, b.t), b.t, a.t), a.typ}
	case "fresh":
		x := env.expr(e.Args[0])
		r := x.t
		if x.t.S == SSlc {
			r = SlcBase(x.t)
		}
		if x.t.S == SIfc {
			r = IfcPtr(x.t)
		}
		// allocated after the pre-state of this contract (at a call site: during the call)
		root := r
		for root.Op == "emb" {
			root = root.Args[0]
		}
		base := fx.entryAlloc
		if env.old != nil {
			base = fx.heapGet(env.old, "alloc", SInt)
		}
		return specVal{And(Ge(root, base), Neq(r, IntLit(0))), tBool}
	case "allocated":
		// allocated(x): the object x refers to exists in the current state (its reference lies below the
		// allocation counter); with fresh() of a later allocation this gives distinctness
		x := env.expr(e.Args[0])
		r := x.t
		if x.t.S == SSlc {
			r = SlcBase(x.t)
		}
		if x.t.S == SIfc {
			r = IfcPtr(x.t)
		}
		root := r
		for root.Op == "emb" {
			root = root.Args[0]
		}
		return specVal{Lt(root, fx.heapGet(env.st, "alloc", SInt)), tBool}
	case "typeis":
		// typeis(x, T): dynamic type of interface value x is T
		x := env.expr(e.Args[0])
		tn := strings.TrimSpace(e.Args[1].String())
		if e.Args[1].Kind == "string" {
			tn = e.Args[1].Str
		}
		t, err := fx.e.resolveType(env.pkg, tn)
		if err != nil {
			env.fail("%v", err)
		}
		if it, isI := t.Underlying().(*types.Interface); isI {
			// typeis(x, I) for an interface type I: the dynamic type of x implements I
			if it.NumMethods() == 0 {
				return specVal{Neq(IfcTag(x.t), IntLit(0)), tBool}
			}
			return specVal{fx.implementsCond(x.t, it), tBool}
		}
		return specVal{Eq(IfcTag(x.t), IntLit(int64(fx.e.typeTag(t)))), tBool}
	case "cast":
		// cast(x, "*T"): the payload of interface value x viewed as a *T (meaningful when typeis(x, "*T"))
		x := env.expr(e.Args[0])
		t, err := fx.e.resolveType(env.pkg, e.Args[1].Str)
		if err != nil {
			env.fail("%v", err)
		}
		if x.t.S != SIfc {
			return specVal{x.t, t}
		}
		return specVal{fx.unboxIface(x.t, t), t}
	case "res0", "res1", "res2":
		// res<i>(call): the i-th result of a pure call with several results
		if len(e.Args) != 1 || e.Args[0].Kind != "call" {
			env.fail("%s needs a call", e.Name)
		}
		env.resSel = int(e.Name[3]-'0') + 1
		v := env.expr(e.Args[0])
		env.resSel = 0
		return v
	case "boxed":
		// boxed(p): the interface value holding p (dynamic type = static type of p)
		x := env.expr(e.Args[0])
		if x.typ == nil {
			env.fail("boxed(nil)")
		}
		return specVal{fx.makeIface(x.t, x.typ), types.NewInterfaceType(nil, nil)}
	case "mk":
		// mk("T", f1, ..., fn): the struct value of type T with the given field values
		if len(e.Args) < 1 || e.Args[0].Kind != "string" {
			env.fail("mk needs a type name")
		}
		t, err := fx.e.resolveType(env.pkg, e.Args[0].Str)
		if err != nil {
			env.fail("%v", err)
		}
		st, ok := t.Underlying().(*types.Struct)
		if !ok || st.NumFields() != len(e.Args)-1 {
			env.fail("mk(%s): needs %d field values", e.Args[0].Str, st.NumFields())
		}
		si := fx.e.structOf(t)
		var fs []*Term
		for i := 0; i < st.NumFields(); i++ {
			v := env.expr(e.Args[i+1])
			fs = append(fs, v.t)
		}
		return specVal{Ctor(si.ctor, fs...), t}
	case "deref":
		// deref(p): the value stored in the cell p points to (non-struct element types)
		x := env.expr(e.Args[0])
		pt, ok := x.typ.Underlying().(*types.Pointer)
		if !ok {
			env.fail("deref() needs a pointer")
		}
		if _, isS := pt.Elem().Underlying().(*types.Struct); isS {
			return specVal{fx.readObj(env.st, x.t, pt.Elem()), pt.Elem()}
		}
		hn, hs := fx.pheapName(pt.Elem())
		return specVal{Select(fx.heapGet(env.st, hn, hs), x.t), pt.Elem()}
	case "ptrof":
		x := env.expr(e.Args[0])
		return specVal{IfcPtr(x.t), tInt}
	case "addr":
		// addr(x.f): the address (reference) of field f of object x
		a := e.Args[0]
		if a.Kind == "index" {
			x := env.expr(a.Args[0])
			i := env.expr(a.Args[1])
			sl, ok := x.typ.Underlying().(*types.Slice)
			if !ok {
				env.fail("addr(x[i]) needs a slice")
			}
			return specVal{fx.eaddr(SlcBase(x.t), Add(SlcOff(x.t), i.t)), types.NewPointer(sl.Elem())}
		}
		if a.Kind != "field" {
			env.fail("addr() needs a field or element expression")
		}
		loc := env.assignLoc(a)
		if loc == nil || loc.si == nil {
			env.fail("addr(): cannot resolve %s", a)
		}
		return specVal{fx.emb(loc.obj, loc.si, loc.fidx), types.NewPointer(loc.si.st.Field(loc.fidx).Type())}
	case "heapeq":
		// heapeq(): whole heap unchanged since old state (all components touched so far)
		return specVal{fx.heapUnchanged(env.old, env.st), tBool}
	case "keyof":
		// keyof(m, k): the abstract key (an integer, equal for equal key values) under which k is stored in m
		m := env.expr(e.Args[0])
		k := env.expr(e.Args[1])
		mt := m.typ.Underlying().(*types.Map)
		kk := fx.mapKey(k.t, mt.Key())
		if kk.S != SInt {
			env.fail("keyof: keys of %s are not abstracted", mt)
		}
		return specVal{kk, tInt}
	case "mapdomk", "mapvalk":
		// mapdomk(m, c) / mapvalk(m, c): presence / value of the entry with abstract key c
		m := env.expr(e.Args[0])
		c := env.expr(e.Args[1])
		mt := m.typ.Underlying().(*types.Map)
		dn, vn, ds, vs := fx.mapHeapNames(mt)
		if e.Name == "mapdomk" {
			return specVal{Select(Select(fx.heapGet(env.st, dn, ds), m.t), c.t), tBool}
		}
		return specVal{Select(Select(fx.heapGet(env.st, vn, vs), m.t), c.t), mt.Elem()}
	case "visited":
		// visited(k): in the invariant of a range loop over a map: key k was handed out by an earlier iteration
		if env.mapIt == nil {
			env.fail("visited() is only available in the invariant of a range loop over a map")
		}
		k := env.expr(e.Args[0])
		ks := fx.mapKeySort(env.mapItInfo.kt)
		hs := ArrSort(SInt, ArrSort(ks, SBool))
		return specVal{Select(Select(fx.heapGet(env.st, "G_visited_"+sanitize(string(ks)), hs), env.mapIt), fx.mapKey(k.t, env.mapItInfo.kt)), tBool}
	case "visitedk":
		// visitedk(c): like visited, for an abstract key c (see keyof)
		if env.mapIt == nil {
			env.fail("visitedk() is only available in the invariant of a range loop over a map")
		}
		c := env.expr(e.Args[0])
		ks := fx.mapKeySort(env.mapItInfo.kt)
		hs := ArrSort(SInt, ArrSort(ks, SBool))
		return specVal{Select(Select(fx.heapGet(env.st, "G_visited_"+sanitize(string(ks)), hs), env.mapIt), c.t), tBool}
	case "mapdom":
		// mapdom(m, k): key k present in map m
		m := env.expr(e.Args[0])
		k := env.expr(e.Args[1])
		mt := m.typ.Underlying().(*types.Map)
		dn, _, ds, _ := fx.mapHeapNames(mt)
		// a nil map has no keys (as the lookup in the code sees it)
		return specVal{And(Neq(m.t, IntLit(0)), Select(Select(fx.heapGet(env.st, dn, ds), m.t), fx.mapKey(k.t, mt.Key()))), tBool}
	}
	// function-typed variable (e.g. parameter `valid`)
	if v, ok := env.lookup(e.Name); ok {
		if sig, ok := v.typ.Underlying().(*types.Signature); ok {
			var args []*Term
			for _, a := range e.Args {
				args = append(args, env.expr(a).t)
			}
			return specVal{fx.applyFuncValue(v.t, sig, args), sig.Results().At(0).Type()}
		}
	}
	if sf := fx.e.findSpec(env.pkg, e.Name); sf != nil {
		var args []specVal
		for _, a := range e.Args {
			args = append(args, env.expr(a))
		}
		return env.callSpec(sf, args)
	}
	sel := env.resSel
	env.resSel = 0
	if v, ok := env.specMethodCall(e, sel); ok {
		return v
	}
	if v, ok := env.specPureFuncCall(e, sel); ok {
		return v
	}
	env.fail("unknown function %s in spec", e.Name)
	return specVal{}
}

// specBodyDepth > 0 while the body of a spec function is being translated: its terms
// mention the function's parameters and must not leak into unit-level facts.
var specBodyDepth int

// callSpec applies a spec function, declaring/defining it on first use.
func (env *SpecEnv) callSpec(sf *SpecFunc, args []specVal) specVal {
	fx := env.fx
	if sf.Ghost {
		if len(args) != 1 {
			env.fail("ghost %s takes one argument", sf.Name)
		}
		rt, err := fx.e.resolveType(sf.Pkg, sf.Ret)
		if err != nil {
			env.fail("ghost %s: %v", sf.Name, err)
		}
		key := refKey(args[0].t)
		h := fx.heapGet(env.st, "G_"+sf.Name, ArrSort(SInt, fx.e.sortOf(rt)))
		return specVal{Select(h, key), rt}
	}
	if len(args) != len(sf.Params) {
		env.fail("spec function %s: want %d args, got %d", sf.Name, len(sf.Params), len(args))
	}
	if sf.Macro {
		inner := *env
		inner.vars = map[string]specVal{}
		inner.locals = nil
		inner.pkg = sf.Pkg
		if sf.Pkg == "" {
			inner.pkg = env.pkg
		}
		for i, p := range sf.Params {
			pt, err := fx.e.resolveType(inner.pkg, p.Type)
			if err != nil {
				env.fail("macro %s: %v", sf.Name, err)
			}
			a := args[i]
			if a.typ == nil {
				a = specVal{fx.e.zero(pt), pt}
			}
			inner.vars[p.Name] = specVal{a.t, pt}
		}
		if env.macroDepth > 8 {
			env.fail("macro %s: expansion too deep", sf.Name)
		}
		inner.macroDepth = env.macroDepth + 1
		return inner.expr(sf.Body)
	}
	rt, err := fx.e.resolveType(sf.Pkg, sf.Ret)
	if err != nil {
		env.fail("spec %s: %v", sf.Name, err)
	}
	name := "spec_" + sf.Name
	// heap components read by the body are implicit parameters
	type hcomp struct {
		name string
		sort Sort
	}
	var hcomps []hcomp
	for _, r := range sf.Reads {
		n, so, err := fx.e.heapComponent(fx, sf.Pkg, r)
		if err != nil {
			env.fail("spec %s: reads %s: %v", sf.Name, r, err)
		}
		hcomps = append(hcomps, hcomp{n, so})
	}
	if !fx.c.HasDecl(name) {
		var params []*Term
		var sorts []Sort
		inner := &SpecEnv{fx: fx, pkg: sf.Pkg, vars: map[string]specVal{}, where: "spec " + sf.Name, inSpecBody: true}
		for _, p := range sf.Params {
			pt, err := fx.e.resolveType(sf.Pkg, p.Type)
			if err != nil {
				env.fail("spec %s: %v", sf.Name, err)
			}
			v := Var(p.Name, fx.e.sortOf(pt))
			params = append(params, v)
			sorts = append(sorts, v.S)
			inner.vars[p.Name] = specVal{v, pt}
		}
		if len(hcomps) > 0 {
			pst := &State{guard: True, cells: map[*ssa.Alloc]*Term{}, heap: map[string]*Term{}, epoch: "SPEC"}
			for _, h := range hcomps {
				v := Var("hp_"+h.name, h.sort)
				params = append(params, v)
				sorts = append(sorts, h.sort)
				pst.heap[h.name] = v
			}
			pst.heap["alloc"] = IntLit(0)
			inner.st = pst
			inner.old = pst
		}
		if sf.Body == nil {
			fx.c.DeclareFun(name, sorts, fx.e.sortOf(rt))
		} else if sf.Rec {
			// declare first so that the body can refer to the function, then turn
			// the declaration into a define-fun-rec
			fx.c.DeclareFun(name, sorts, fx.e.sortOf(rt))
			specBodyDepth++
			body := inner.expr(sf.Body)
			specBodyDepth--
			d := fx.c.declIdx[name]
			d.params, d.args, d.body, d.rec = params, nil, body.t, true
			// move behind everything declared while translating the body
			for i, x := range fx.c.decls {
				if x == d {
					fx.c.decls = append(append(fx.c.decls[:i:i], fx.c.decls[i+1:]...), d)
					break
				}
			}
			if strings.Contains(body.t.String(), "HSPEC_") {
				env.fail("spec %s reads a heap component that is not listed in its reads clause", sf.Name)
			}
		} else if sf.Triggered {
			// f(args) == body as an axiom with trigger f(args): a definition (body does not mention f),
			// unfolded by the solver only where an application of f occurs
			fx.c.DeclareFun(name, sorts, fx.e.sortOf(rt))
			specBodyDepth++
			body := inner.expr(sf.Body)
			specBodyDepth--
			if strings.Contains(body.t.String(), "HSPEC_") {
				env.fail("spec %s reads a heap component that is not listed in its reads clause", sf.Name)
			}
			if strings.Contains(body.t.String(), "("+sanitize(name)+" ") {
				env.fail("triggered spec %s must not be recursive", sf.Name)
			}
			app := App(name, fx.e.sortOf(rt), params...)
			fx.c.Axiom("definition of "+sf.Name, Forall(params, Eq(app, body.t), app))
		} else {
			specBodyDepth++
			body := inner.expr(sf.Body)
			specBodyDepth--
			fx.c.DefineFun(name, params, fx.e.sortOf(rt), body.t, false)
			if strings.Contains(body.t.String(), "HSPEC_") {
				env.fail("spec %s reads a heap component that is not listed in its reads clause", sf.Name)
			}
		}
	}
	var ts []*Term
	for i, a := range args {
		want := fx.c.declIdx[name]
		_ = want
		pt, _ := fx.e.resolveType(sf.Pkg, sf.Params[i].Type)
		if a.typ == nil {
			a = specVal{fx.e.zero(pt), pt}
		}
		if a.t.S != fx.e.sortOf(pt) {
			env.fail("spec function %s arg %d: sort %s, want %s", sf.Name, i, a.t.S, fx.e.sortOf(pt))
		}
		ts = append(ts, a.t)
	}
	for _, h := range hcomps {
		if env.st == nil {
			env.fail("spec %s reads the heap but is used in a heap-free context", sf.Name)
		}
		ts = append(ts, fx.heapGet(env.st, h.name, h.sort))
	}
	return specVal{App(name, fx.e.sortOf(rt), ts...), rt}
}

// ---------------------------------------------------------------------------
// assigns locations

type assignLoc struct {
	obj     *Term
	si      *structInfo
	fidx    int
	whole   string // whole heap component
	ref     *Term
	refKind string
	gsort   Sort
	ptype   types.Type
	slc     *Term // elems(s): the slice value
}

// assignLoc resolves an assigns target: x.f, heap(T.f), elems(s), *p
func (env *SpecEnv) assignLoc(e *SExpr) *assignLoc {
	fx := env.fx
	switch e.Kind {
	case "ident":
		if b, ok := env.fvs[e.Name]; ok {
			return &assignLoc{ref: b.ptr, refKind: "pcell", ptype: b.typ}
		}
		if e.Name == "caches" {
			return &assignLoc{whole: "caches"}
		}
		env.fail("assigns %s: not a captured variable", e.Name)
	case "field":
		x := env.expr(e.Args[0])
		t := x.typ
		cur := x.t
		if p, ok := t.Underlying().(*types.Pointer); ok {
			t = p.Elem()
		} else if _, isStruct := t.Underlying().(*types.Struct); isStruct && e.Args[0].Kind == "field" {
			// field of a struct-typed field (p.a.b): the embedded object's reference
			inner := env.assignLoc(e.Args[0])
			if inner == nil || inner.si == nil || inner.whole != "" {
				env.fail("assigns %s: cannot resolve the enclosing field", e)
			}
			cur = fx.emb(inner.obj, inner.si, inner.fidx)
		} else {
			env.fail("assigns %s: base is not a pointer", e)
		}
		var pkg *types.Package
		if n, ok := t.(*types.Named); ok {
			pkg = n.Obj().Pkg()
		}
		_, path, _ := types.LookupFieldOrMethod(t, true, pkg, e.Name)
		if path == nil {
			env.fail("assigns: no field %s", e.Name)
		}
		ct := t
		for k, idx := range path {
			si := fx.e.structOf(ct)
			if k == len(path)-1 {
				return &assignLoc{obj: cur, si: si, fidx: idx}
			}
			cur = fx.emb(cur, si, idx)
			ct = si.st.Field(idx).Type()
		}
	case "call":
		switch e.Name {
		case "heap":
			// heap(T.f)
			a := e.Args[0]
			if a.Kind != "field" {
				env.fail("heap(T.f) expected")
			}
			t, err := fx.e.resolveType(env.pkg, a.Args[0].String())
			if err != nil {
				env.fail("%v", err)
			}
			si := fx.e.structOf(t)
			for i := 0; i < si.st.NumFields(); i++ {
				if si.st.Field(i).Name() == a.Name {
					return &assignLoc{whole: fieldHeapName(si, i), si: si, fidx: i}
				}
			}
			env.fail("heap(): no field %s", a.Name)
		case "mapof":
			// mapof(m): the contents (domain and values) of map m
			x := env.expr(e.Args[0])
			if _, ok := x.typ.Underlying().(*types.Map); !ok {
				env.fail("mapof() needs a map")
			}
			return &assignLoc{ref: x.t, refKind: "map", ptype: x.typ}
		case "elems":
			x := env.expr(e.Args[0])
			var et types.Type
			if sl, ok := x.typ.Underlying().(*types.Slice); ok {
				et = sl.Elem()
			}
			return &assignLoc{ref: SlcBase(x.t), refKind: "elem", ptype: et, slc: x.t}
		case "deref":
			x := env.expr(e.Args[0])
			var pt types.Type
			if p, ok := x.typ.Underlying().(*types.Pointer); ok {
				pt = p.Elem()
			}
			return &assignLoc{ref: x.t, refKind: "pcell", ptype: pt}
		case "ghost":
			sf := fx.e.findSpec(env.pkg, e.Args[0].String())
			if sf == nil || !sf.Ghost {
				env.fail("unknown ghost state %s", e.Args[0])
			}
			rt, err := fx.e.resolveType(sf.Pkg, sf.Ret)
			if err != nil {
				env.fail("%v", err)
			}
			loc := &assignLoc{whole: "G_" + sf.Name, gsort: ArrSort(SInt, fx.e.sortOf(rt))}
			if len(e.Args) == 2 {
				loc.ref = refKey(env.expr(e.Args[1]).t)
				loc.refKind = "ghost"
			}
			return loc
		}
	}
	env.fail("unsupported assigns target %s", e)
	return nil
}

// elemTriggers returns the slice/array element reads of t whose index is exactly the
// bound variable bv and that mention no other bound variable and no ite (at most 3).
func elemTriggers(t *Term, bv *Term) []*Term {
	var out []*Term
	seen := map[string]bool{}
	var mentionsOtherBound func(x *Term) bool
	mentionsOtherBound = func(x *Term) bool {
		if len(x.Args) == 0 && x.lit == nil {
			return x.Op != bv.Op && (strings.Contains(x.Op, "!q") || strings.Contains(x.Op, "!e") || strings.Contains(x.Op, "!b") || strings.Contains(x.Op, "!c"))
		}
		if x.Op == "ite" || x.Op == "forall" || x.Op == "exists" {
			return true
		}
		for _, a := range x.Args {
			if mentionsOtherBound(a) {
				return true
			}
		}
		return false
	}
	var walk func(x *Term, underQ bool)
	walk = func(x *Term, underQ bool) {
		if len(out) >= 3 {
			return
		}
		isElem := (strings.HasPrefix(x.Op, "elem_") && len(x.Args) == 3 && same(x.Args[2], bv)) || (x.Op == "select" && len(x.Args) == 2 && same(x.Args[1], bv))
		if isElem && !mentionsOtherBound(x.Args[0]) && (len(x.Args) < 3 || !mentionsOtherBound(x.Args[1])) {
			k := x.String()
			if !seen[k] {
				seen[k] = true
				out = append(out, x)
			}
			return
		}
		for _, a := range x.Args {
			walk(a, underQ)
		}
	}
	walk(t, false)
	return out
}

// splitQuant splits forall/exists arguments into binders, body and trailing pattern(...) items.
func splitQuant(e *SExpr) (binders []*SExpr, body *SExpr, pats []*SExpr) {
	args := e.Args
	for len(args) > 0 {
		l := args[len(args)-1]
		if l.Kind == "call" && l.Name == "pattern" {
			pats = append([]*SExpr{l}, pats...)
			args = args[:len(args)-1]
			continue
		}
		break
	}
	if len(args) < 2 {
		return nil, nil, nil
	}
	return args[:len(args)-1], args[len(args)-1], pats
}

// refKey maps a value to the integer key of its ghost state.
func refKey(t *Term) *Term {
	switch t.S {
	case SIfc:
		return IfcPtr(t)
	case SSlc:
		return SlcBase(t)
	}
	return t
}
