package main

// Property-level check driver: runs every unit (function x behaviour) whose
// contract is tagged with the property, discharges the obligations, handles
// known findings, replay and evidence.

import (
	"runtime"
	"encoding/json"
	"flag"
	"fmt"
	"os"
	"os/exec"
	"path/filepath"
	"regexp"
	"sort"
	"strconv"
	"strings"
	"time"
)

type PropConfig struct {
	ID        string   `json:"id"`
	Packages  []string `json:"packages"`
	Level     string   `json:"level"`
	Harness   *Harness `json:"harness"`
	Bounded   []Harness `json:"bounded"`
	Statics   []string `json:"statics"` // built-in static obligations (sweeps)
	Assumptions []string `json:"assumptions"`
	Explanation string `json:"explanation"`
	MinUnits  int      `json:"min_units"`
}

type Harness struct {
	Name    string `json:"name"`
	PkgDir  string `json:"pkgdir"`  // directory under /repo whose package the test joins
	File    string `json:"file"`    // test file under /verif/replay
	Run     string `json:"run"`     // -run pattern
	Quick   string `json:"quick"`   // VERIF_BOUND for quick tier
	Thorough string `json:"thorough"`
	Race    bool   `json:"race"`
	Gen     string `json:"gen"` // generator for placeholders in the harness file
	Note    string `json:"note"`
}

type KnownFinding struct {
	Property   string `json:"property"`
	Status     string `json:"status"` // open | fixed
	Obligation string `json:"obligation"` // regexp on obligation name
	Input      string `json:"input"`
	What       string `json:"what"`
	Commit     string `json:"commit,omitempty"`
}

type oblReport struct {
	Name   string  `json:"name"`
	Func   string  `json:"function"`
	Beh    string  `json:"behaviour"`
	Kind   string  `json:"kind"`
	Pos    string  `json:"pos,omitempty"`
	Status string  `json:"status"`
	Solver string  `json:"backend,omitempty"`
	TimeS  float64 `json:"time_s"`
}

func loadKnown(verif string) []KnownFinding {
	var ks []KnownFinding
	b, err := os.ReadFile(filepath.Join(verif, "known_findings.json"))
	if err != nil {
		return nil
	}
	if err := json.Unmarshal(b, &ks); err != nil {
		fmt.Fprintln(os.Stderr, "known_findings.json:", err)
		os.Exit(2)
	}
	return ks
}

func cmdCheck(args []string) {
	fs := flag.NewFlagSet("check", flag.ExitOnError)
	repo := fs.String("repo", "/repo", "")
	verif := fs.String("verif", "/verif", "")
	prop := fs.String("prop", "", "property id")
	tier := fs.String("tier", "quick", "quick|thorough")
	jobs := fs.Int("jobs", defaultJobs(), "parallel obligations (each races three solvers)")
	evidenceOut := fs.String("evidence", "", "evidence file (default /verif/evidence/<id>.json)")
	updateBaseline := fs.Bool("update-baseline", false, "rewrite baseline/<id>.txt from this run")
	fs.Parse(args)
	t0 := time.Now()
	seed := 0
	if s := os.Getenv("VERIF_SEED"); s != "" {
		seed, _ = strconv.Atoi(s)
	}
	var cfg PropConfig
	b, err := os.ReadFile(filepath.Join(*verif, "props", *prop+".json"))
	if err != nil {
		fmt.Fprintln(os.Stderr, "no config for property", *prop, err)
		os.Exit(2)
	}
	if err := json.Unmarshal(b, &cfg); err != nil {
		fmt.Fprintln(os.Stderr, "bad config:", err)
		os.Exit(2)
	}
	if cfg.Harness == nil && len(cfg.Bounded) > 0 {
		cfg.Harness = &cfg.Bounded[0] // the stand-in doubles as the witness search
	}
	evPath := *evidenceOut
	if evPath == "" {
		evPath = filepath.Join(*verif, "evidence", cfg.ID+".json")
	}
	os.Remove(evPath)
	timeout := 10
	all := false
	if *tier == "thorough" {
		timeout = 60
		all = true
	}
	undecided := func(f string, a ...interface{}) {
		fmt.Printf("UNDECIDED property=%s %s\n", cfg.ID, fmt.Sprintf(f, a...))
		os.Exit(2)
	}
	e, err := NewEngine(*repo, *verif, cfg.Packages)
	if err != nil {
		undecided("load: %v", err)
	}
	if err := e.LoadContracts(); err != nil {
		undecided("%v", err)
	}
	var units []*Unit
	funcs := map[string]bool{}
	for fn, con := range e.cons {
		if con.Trusted || !hasProp(con.Props, cfg.ID) || pureOnly(con) {
			continue
		}
		funcs[fn.String()] = true
		units = append(units, e.unitsFor(fn, con)...)
	}
	sort.Slice(units, func(i, j int) bool { return units[i].Name < units[j].Name })
	if len(units) < cfg.MinUnits || len(units) == 0 && len(cfg.Statics) == 0 && len(cfg.Bounded) == 0 {
		undecided("only %d units under contract (expected >= %d): contracts missing", len(units), cfg.MinUnits)
	}
	known := loadKnown(*verif)
	var reports []oblReport
	var failures []failure
	assumptions := map[string]bool{}
	for _, a := range cfg.Assumptions {
		assumptions[a] = true
	}
	byBackend := map[string]int{}
	solverTime := 0.0
	nObl, nDis, nCover := 0, 0, 0
	samples := []map[string]string{}
	var engineErrs []string
	engineErrs = append(engineErrs, e.stale...)
	var allObls []*Obligation
	e.VerifyAll(units, func(res *UnitResult) {
		u := res.Unit
		if res.Err != "" {
			engineErrs = append(engineErrs, u.Name+": "+res.Err)
			return
		}
		for _, t := range res.Trusted {
			assumptions[t] = true
		}
		allObls = append(allObls, res.Obls...)
	})
	{
		rs := solveAll(allObls, *jobs, timeout, all)
		// second chance: an obligation that ran into the time limit (machine load, solver
		// heuristics) is retried with four times the budget on every solver before
		// it is reported; `sat` answers are final
		var retry []int
		for i, r := range rs {
			if !r.O.Cover && (r.R.Status == "timeout" || r.R.Status == "unknown") {
				retry = append(retry, i)
			}
		}
		if len(retry) > 0 && len(retry) <= 12 {
			var ro []*Obligation
			for _, i := range retry {
				ro = append(ro, rs[i].O)
			}
			rr := solveAll(ro, 4, timeout*4, true)
			for k, i := range retry {
				if rr[k].R.Status == "unsat" || rr[k].R.Status == "sat" {
					rr[k].R.TimeS += rs[i].R.TimeS
					rs[i] = rr[k]
				}
			}
		}
		for i, r := range rs {
			rep := oblReport{Name: r.O.Name, Func: r.O.Func, Beh: r.O.Beh, Kind: r.O.Kind, Pos: r.O.Pos, Status: r.R.Status, Solver: r.R.Solver, TimeS: r.R.TimeS}
			solverTime += r.R.TimeS
			if r.O.Cover {
				nCover++
				if r.R.Status == "unsat" {
					engineErrs = append(engineErrs, "vacuous: cover obligation "+r.O.Name+" is unsatisfiable (contradictory precondition/invariant/axioms)")
				}
				rep.Status = "cover-" + r.R.Status
				reports = append(reports, rep)
				continue
			}
			nObl++
			reports = append(reports, rep)
			if r.R.Status == "unsat" {
				nDis++
				byBackend[r.R.Solver]++
				if len(samples) < 3 && r.R.Solver != "simplifier" && i%7 == 3 {
					smt := r.O.SMT(false)
					samples = append(samples, map[string]string{"obligation": r.O.Name, "pos": r.O.Pos, "goal": trunc(r.O.Goal.String(), 600), "smt_bytes": strconv.Itoa(len(smt))})
				}
				continue
			}
			if r.R.Status == "error" {
				engineErrs = append(engineErrs, "solver error on "+r.O.Name+": "+trunc(r.R.Output, 300))
				continue
			}
			failures = append(failures, failure{o: r.O, r: r.R})
		}
	}
	// static obligations (sweeps implemented in Go over the SSA)
	for _, s := range cfg.Statics {
		srs, errs := e.runStatic(s, cfg.ID)
		engineErrs = append(engineErrs, errs...)
		for _, sr := range srs {
			nObl++
			be := sr.Backend
			if be == "" {
				be = "govc-static"
			}
			if sr.Status == "error" {
				engineErrs = append(engineErrs, sr.Name+": "+sr.Detail)
				nObl--
				continue
			}
			reports = append(reports, oblReport{Name: sr.Name, Func: sr.Func, Kind: sr.Kind, Pos: sr.Pos, Status: sr.Status, Solver: be})
			if sr.Status == "unsat" {
				nDis++
				byBackend[be]++
				if len(samples) < 4 && len(srs) > 0 && sr.Name == srs[len(srs)/2].Name {
					samples = append(samples, map[string]string{"obligation": sr.Name, "pos": sr.Pos, "goal": sr.Detail})
				}
			} else {
				failures = append(failures, failure{static: &sr})
			}
		}
	}
	if len(samples) == 0 && len(reports) > 0 {
		samples = append(samples, map[string]string{"obligation": reports[0].Name, "pos": reports[0].Pos})
	}
	// triage failures: known findings vs violations
	exit := 0
	var lines []string
	nViol := 0
	var knownObls []map[string]string
	os.MkdirAll(filepath.Join(*verif, "work", "replay"), 0o755)
	matchedKnown := map[int]bool{}
	for _, f := range failures {
		name := f.name()
		isKnown := false
		for ki, k := range known {
			if k.Property != cfg.ID || k.Status != "open" {
				continue
			}
			if ok, _ := regexp.MatchString(k.Obligation, name); ok {
				isKnown = true
				if !matchedKnown[ki] {
					matchedKnown[ki] = true
					lines = append(lines, fmt.Sprintf("KNOWN-FINDING: property=%s %s (obligation %s; input %s)", cfg.ID, k.What, k.Obligation, k.Input))
				}
				knownObls = append(knownObls, map[string]string{"obligation": name, "input_class": k.Input, "what": k.What})
				break
			}
		}
		if isKnown {
			nObl-- // excluded from both counts (DESIGN §6)
			continue
		}
		nViol++
		rp := filepath.Join(*verif, "work", "replay", fmt.Sprintf("%s-%s.json", cfg.ID, sanitize(name)))
		witness := writeReplay(rp, cfg, f, *repo, *verif, *tier)
		suffix := ""
		if !witness {
			suffix = " no-failing-input-found"
		}
		lines = append(lines, fmt.Sprintf("VIOLATION property=%s replay=%s obligation=%s status=%s%s", cfg.ID, rp, name, f.status(), suffix))
		exit = 1
	}
	// bounded stand-ins (never counted as proved)
	var boundedRes []map[string]interface{}
	for _, h := range cfg.Bounded {
		br := runHarness(h, *repo, *verif, *tier, seed, "")
		for _, sm := range br.samples {
			samples = append(samples, map[string]string{"bounded_case": sm, "harness": h.Name})
		}
		boundedRes = append(boundedRes, map[string]interface{}{"name": h.Name, "note": h.Note, "bound": br.bound, "cases": br.cases, "ok": br.ok, "wall_s": br.wall, "label": "bounded (not counted as proved)"})
		if !br.ok {
			// known findings may be identified by harness case
			for _, fl := range br.fails {
				kn := false
				for ki, k := range known {
					if k.Property == cfg.ID && k.Status == "open" {
						if ok, _ := regexp.MatchString(k.Obligation, "bounded:"+h.Name+":"+fl); ok {
							kn = true
							if !matchedKnown[ki] {
								matchedKnown[ki] = true
								lines = append(lines, fmt.Sprintf("KNOWN-FINDING: property=%s %s (bounded case %s)", cfg.ID, k.What, fl))
							}
						}
					}
				}
				if kn {
					continue
				}
				nViol++
				rp := filepath.Join(*verif, "work", "replay", fmt.Sprintf("%s-bounded-%s.json", cfg.ID, sanitize(h.Name)))
				js, _ := json.MarshalIndent(map[string]interface{}{"property": cfg.ID, "obligation": "bounded:" + h.Name, "failing_case": fl, "harness": h, "output": trunc(br.out, 4000)}, "", " ")
				os.WriteFile(rp, js, 0o644)
				lines = append(lines, fmt.Sprintf("VIOLATION property=%s replay=%s obligation=bounded:%s case=%q", cfg.ID, rp, h.Name, fl))
				exit = 1
				break
			}
			if br.err != "" {
				engineErrs = append(engineErrs, "bounded harness "+h.Name+": "+br.err)
			}
		}
	}
	if len(engineErrs) > 0 && exit == 0 {
		for _, er := range engineErrs {
			fmt.Printf("UNDECIDED property=%s %s\n", cfg.ID, er)
		}
		exit = 2
	}
	// baseline comparison
	blPath := filepath.Join(*verif, "baseline", cfg.ID+".txt")
	var names []string
	for _, r := range reports {
		if r.Status == "unsat" {
			names = append(names, r.Name)
		}
	}
	sort.Strings(names)
	if *updateBaseline {
		os.MkdirAll(filepath.Dir(blPath), 0o755)
		os.WriteFile(blPath, []byte(strings.Join(names, "\n")+"\n"), 0o644)
	}
	missing := 0
	if bl, err := os.ReadFile(blPath); err == nil {
		have := map[string]bool{}
		for _, n := range names {
			have[n] = true
		}
		for _, n := range strings.Fields(string(bl)) {
			if !have[n] {
				missing++
			}
		}
	}
	fl := []string{}
	for f := range funcs {
		fl = append(fl, strings.Replace(f, modPath+"/", "", -1))
	}
	sort.Strings(fl)
	as := []string{}
	for a := range assumptions {
		as = append(as, a)
	}
	sort.Strings(as)
	level := cfg.Level
	if level == "" {
		level = "proof"
	}
	cov := map[string]interface{}{
		"obligations": nObl, "discharged": nDis,
		"checker_cmd":  fmt.Sprintf("bin/govc check -prop %s -tier %s (go/ssa NaiveForm VC generation; z3 4.8.12 | z3-new 5.1.0 | cvc5 1.0 raced per obligation)", cfg.ID, *tier),
		"trusted_base": []string{"go/types + go/ssa (x/tools v0.29.0) SSA construction", "govc semantics of SSA instructions (DESIGN §2.4)", "SMT solvers z3 4.8.12, z3 5.1.0, cvc5 1.0"},
		"functions_under_contract": fl, "units": len(units), "vacuity_covers_checked": nCover,
		"discharged_by_backend": byBackend, "solver_time_s": round2(solverTime),
		"samples": samples, "obligation_list": reports, "baseline_names_missing": missing,
		"known_finding_obligations": knownObls, "bounded_standins": boundedRes,
		"explanation": cfg.Explanation,
	}
	if nObl == 0 {
		// nothing provable claimed here: evidence must not pretend to be a proof
		level = "other"
		if cfg.Explanation == "" {
			cov["explanation"] = "no deductive obligations for this property; see bounded_standins"
		}
	}
	ev := map[string]interface{}{
		"property_id": cfg.ID, "tier": *tier, "seed": seed, "level": level, "coverage": cov,
		"assumptions": as, "wall_s": round2(time.Since(t0).Seconds()), "violations": nViol,
	}
	js, _ := json.MarshalIndent(ev, "", " ")
	os.MkdirAll(filepath.Dir(evPath), 0o755)
	if err := os.WriteFile(evPath, js, 0o644); err != nil {
		fmt.Fprintln(os.Stderr, err)
		os.Exit(2)
	}
	for _, l := range lines {
		fmt.Println(l)
	}
	fmt.Printf("property=%s tier=%s units=%d obligations=%d discharged=%d covers=%d violations=%d wall=%.1fs\n", cfg.ID, *tier, len(units), nObl, nDis, nCover, nViol, time.Since(t0).Seconds())
	os.Exit(exit)
}

func round2(f float64) float64 { return float64(int(f*100+0.5)) / 100 }

func hasProp(ps []string, id string) bool {
	for _, p := range ps {
		if p == id {
			return true
		}
	}
	return false
}

type failure struct {
	o      *Obligation
	r      *SolveResult
	static *staticResult
}

func (f failure) name() string {
	if f.static != nil {
		return f.static.Name
	}
	return f.o.Name
}
func (f failure) status() string {
	if f.static != nil {
		return "static-fail"
	}
	return f.r.Status
}

// writeReplay writes the replay file for a failed obligation and tries to
// obtain a failing input on the real code; returns whether one was found.
func writeReplay(path string, cfg PropConfig, f failure, repo, verif, tier string) bool {
	rec := map[string]interface{}{"property": cfg.ID, "obligation": f.name(), "status": f.status()}
	if f.static != nil {
		rec["detail"] = f.static.Detail
		rec["pos"] = f.static.Pos
		rec["witness"] = f.static.Witness
	} else {
		rec["function"] = f.o.Func
		rec["behaviour"] = f.o.Beh
		rec["kind"] = f.o.Kind
		rec["pos"] = f.o.Pos
		rec["goal"] = trunc(f.o.Goal.String(), 2000)
		rec["solver_output"] = f.r.Output
		rec["solver_runs"] = f.r.AllRuns
		rec["model"] = f.r.Model
	}
	found := false
	if f.static != nil && f.static.Witness != "" {
		found = true
	}
	if cfg.Harness != nil {
		hr := witnessSearch(*cfg.Harness, repo, verif, tier, f.name())
		rec["witness_search"] = map[string]interface{}{"harness": cfg.Harness.File, "bound": hr.bound, "cases": hr.cases, "failing_inputs": hr.fails, "error": hr.err}
		if len(hr.fails) > 0 {
			found = true
			rec["failing_input"] = hr.fails[0]
			rec["replay_cmd"] = hr.cmd
		}
	}
	js, _ := json.MarshalIndent(rec, "", " ")
	os.WriteFile(path, js, 0o644)
	return found
}

// witnessSearch runs the stand-in that doubles as witness search. Its result does not depend on the failed obligation
// unless the harness reads VERIF_OBLIGATION (only the C15 harness does), so it is run once per check, not once per
// failed obligation: a change that fails 60 obligations used to cost 60 runs of the same test.
var witnessMemo = map[string]harnessResult{}

func witnessSearch(h Harness, repo, verif, tier, obligation string) harnessResult {
	key := h.File + "|" + h.Run + "|" + tier
	if src, err := os.ReadFile(filepath.Join(verif, "replay", h.File)); err == nil && strings.Contains(string(src), "VERIF_OBLIGATION") {
		key += "|" + obligation
	}
	if r, ok := witnessMemo[key]; ok {
		return r
	}
	r := runHarness(h, repo, verif, tier, 0, obligation)
	witnessMemo[key] = r
	return r
}

type harnessResult struct {
	ok    bool
	cases int
	bound string
	fails []string
	out   string
	err   string
	wall  float64
	cmd   string
	samples []string
}

// runHarness runs a Go test from /verif/replay inside a /repo package via
// -overlay (nothing is written into /repo).
func runHarness(h Harness, repo, verif, tier string, seed int, obligation string) harnessResult {
	t0 := time.Now()
	res := harnessResult{}
	bound := h.Quick
	if tier == "thorough" && h.Thorough != "" {
		bound = h.Thorough
	}
	res.bound = bound
	src := filepath.Join(verif, "replay", h.File)
	dst := filepath.Join(repo, h.PkgDir, "zz_verif_replay_"+filepath.Base(h.File))
	if !strings.HasSuffix(dst, "_test.go") {
		dst = strings.TrimSuffix(dst, ".go") + "_test.go"
	}
	tmp, err := os.MkdirTemp("", "govc-ov-")
	if err != nil {
		res.err = err.Error()
		return res
	}
	defer os.RemoveAll(tmp)
	if h.Gen != "" {
		gsrc, gerr := generateHarness(h.Gen, src, tmp, repo)
		if gerr != nil {
			res.err = "harness generation: " + gerr.Error()
			return res
		}
		src = gsrc
	}
	ov := map[string]map[string]string{"Replace": {dst: src}}
	js, _ := json.Marshal(ov)
	ovf := filepath.Join(tmp, "overlay.json")
	os.WriteFile(ovf, js, 0o644)
	args := []string{"test", "-overlay", ovf, "-vet=off", "-count=1", "-v", "-timeout", "900s", "-run", h.Run}
	if h.Race {
		args = append(args, "-race")
	}
	args = append(args, "./"+h.PkgDir)
	cmd := exec.Command("go", args...)
	cmd.Dir = repo
	cmd.Env = append(os.Environ(), "GOFLAGS=-mod=mod", "GOPROXY=off", "GOSUMDB=off", "GOTOOLCHAIN=local",
		"VERIF_BOUND="+bound, "VERIF_SEED="+strconv.Itoa(seed), "VERIF_OBLIGATION="+obligation, "VERIF_TIER="+tier)
	out, err := cmd.CombinedOutput()
	res.out = string(out)
	res.wall = round2(time.Since(t0).Seconds())
	res.cmd = "cd " + repo + " && VERIF_BOUND=" + bound + " go " + strings.Join(args, " ")
	if n := strings.Count(res.out, "WARNING: DATA RACE"); n > 0 {
		// first race report, condensed to the two accesses
		rep := res.out[strings.Index(res.out, "WARNING: DATA RACE"):]
		var acc []string
		for _, l := range strings.Split(rep, "\n") {
			t := strings.TrimSpace(l)
			if (strings.HasPrefix(t, "Write at") || strings.HasPrefix(t, "Read at") || strings.HasPrefix(t, "Previous write at") || strings.HasPrefix(t, "Previous read at")) && len(acc) < 2 {
				acc = append(acc, t)
			} else if strings.HasPrefix(t, "github.com/llir/llvm") && len(acc) > 0 && len(acc) <= 2 && !strings.Contains(acc[len(acc)-1], "(") {
				acc[len(acc)-1] += " in " + strings.Fields(t)[0]
			}
		}
		res.fails = append(res.fails, fmt.Sprintf("DATA RACE (%d reports): %s", n, strings.Join(acc, " / ")))
	}
	for _, l := range strings.Split(res.out, "\n") {
		l = strings.TrimSpace(l)
		if i := strings.Index(l, "REPLAY-FAIL "); i >= 0 {
			res.fails = append(res.fails, l[i+len("REPLAY-FAIL "):])
		}
		if i := strings.Index(l, "REPLAY-SAMPLE "); i >= 0 && len(res.samples) < 5 {
			res.samples = append(res.samples, l[i+len("REPLAY-SAMPLE "):])
		}
		if i := strings.Index(l, "REPLAY-CASES "); i >= 0 {
			n, _ := strconv.Atoi(strings.Fields(l[i+len("REPLAY-CASES "):])[0])
			res.cases += n
		}
	}
	if err != nil && len(res.fails) == 0 {
		res.err = trunc(res.out, 1500)
	}
	if err == nil && res.cases == 0 {
		res.err = "harness reported zero cases (vacuous run): " + trunc(res.out, 500)
	}
	res.ok = err == nil && len(res.fails) == 0 && res.cases > 0
	return res
}

// defaultJobs: three solver processes race per obligation; keep the number of
// processes close to the number of cores so that the per-query time limit means
// roughly the same on every machine.
func defaultJobs() int {
	n := runtime.NumCPU() / 2
	if n < 2 {
		n = 2
	}
	return n
}
