package main

import (
	"flag"
	"fmt"
	"os"
	"path/filepath"
	"sort"
	"strings"
	"time"
)

func main() {
	if len(os.Args) < 2 {
		fmt.Fprintln(os.Stderr, "usage: govc verify|check ...")
		os.Exit(2)
	}
	switch os.Args[1] {
	case "verify":
		cmdVerify(os.Args[2:])
	case "check":
		cmdCheck(os.Args[2:])
	case "replay":
		cmdReplay(os.Args[2:])
	case "ssa":
		cmdSSA(os.Args[2:])
	default:
		fmt.Fprintln(os.Stderr, "unknown command")
		os.Exit(2)
	}
}

func cmdSSA(args []string) {
	fs := flag.NewFlagSet("ssa", flag.ExitOnError)
	repo := fs.String("repo", "/repo", "")
	pkgs := fs.String("pkgs", "./...", "")
	fn := fs.String("func", "", "")
	fs.Parse(args)
	e, err := NewEngine(*repo, "/verif", strings.Fields(*pkgs))
	if err != nil {
		fmt.Fprintln(os.Stderr, err)
		os.Exit(2)
	}
	for path, p := range e.pkgs {
		if !strings.HasPrefix(path, modPath) {
			continue
		}
		f, err := e.lookupFunc(p, *fn)
		if err == nil {
			f.WriteTo(os.Stdout)
			for _, a := range f.AnonFuncs {
				a.WriteTo(os.Stdout)
			}
		}
	}
}

// cmdVerify: development entry point: verify the contracts of selected functions.
func cmdVerify(args []string) {
	fs := flag.NewFlagSet("verify", flag.ExitOnError)
	repo := fs.String("repo", "/repo", "")
	verif := fs.String("verif", "/verif", "")
	pkgs := fs.String("pkgs", "./...", "package patterns")
	only := fs.String("func", "", "substring filter on unit names")
	timeout := fs.Int("timeout", 10, "per-query timeout (s)")
	jobs := fs.Int("jobs", 6, "parallel obligations")
	dump := fs.String("dump", "", "directory to dump SMT files of non-discharged obligations")
	all := fs.Bool("all", false, "run all solvers on every obligation")
	fs.Parse(args)
	t0 := time.Now()
	e, err := NewEngine(*repo, *verif, strings.Fields(*pkgs))
	if err != nil {
		fmt.Fprintln(os.Stderr, err)
		os.Exit(2)
	}
	if err := e.LoadContracts(); err != nil {
		fmt.Fprintln(os.Stderr, "UNDECIDED", err)
		os.Exit(2)
	}
	fmt.Printf("loaded in %.1fs\n", time.Since(t0).Seconds())
	var units []*Unit
	for fn, con := range e.cons {
		if con.Trusted || pureOnly(con) {
			continue
		}
		for _, u := range e.unitsFor(fn, con) {
			if *only == "" || strings.Contains(u.Name, *only) {
				units = append(units, u)
			}
		}
	}
	sort.Slice(units, func(i, j int) bool { return units[i].Name < units[j].Name })
	bad := 0
	e.VerifyAll(units, func(res *UnitResult) {
		u := res.Unit
		if res.Err != "" {
			fmt.Printf("UNIT %s: ENGINE ERROR: %s\n", u.Name, res.Err)
			bad++
			return
		}
		rs := solveAll(res.Obls, *jobs, *timeout, *all)
		nd := 0
		for _, r := range rs {
			ok := r.R.Status == "unsat"
			if r.O.Cover {
				ok = r.R.Status != "unsat"
			}
			if ok {
				nd++
				nto := 0
				for _, v := range r.R.AllRuns {
					if v != "unsat" && v != "sat" {
						nto++
					}
				}
				if r.R.TimeS > 1.0 || (*all && nto > 0) {
					fmt.Printf("  slow %-60s %.1fs %s %v\n", r.O.Name, r.R.TimeS, r.R.Solver, r.R.AllRuns)
				}
				continue
			}
			bad++
			fmt.Printf("  FAIL %-60s %s %s [%s] %s\n", r.O.Name, r.R.Status, r.R.Solver, r.O.Pos, r.R.Output)
			for k, v := range r.R.Model {
				fmt.Printf("       %s = %s\n", k, v)
			}
			if *dump != "" {
				os.MkdirAll(*dump, 0o755)
				os.WriteFile(filepath.Join(*dump, sanitize(r.O.Name)+".smt2"), []byte(r.O.SMT(true)), 0o644)
			}
		}
		fmt.Printf("UNIT %s: %d/%d ok; trusted: %d\n", u.Name, nd, len(rs), len(res.Trusted))
		if os.Getenv("GOVC_TRUSTED") != "" {
			for _, t := range res.Trusted {
				fmt.Printf("    trusted: %s\n", t)
			}
		}
	})
	fmt.Printf("done in %.1fs, %d problems\n", time.Since(t0).Seconds(), bad)
	if bad > 0 {
		os.Exit(1)
	}
}

