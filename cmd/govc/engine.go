package main

// Engine: loads /repo with the verif tag, builds SSA (NaiveForm), loads the
// contract files, maps Go types to SMT sorts.

import (
	"fmt"
	"go/token"
	"go/types"
	"os"
	"path/filepath"
	"sort"
	"strings"

	"golang.org/x/tools/go/packages"
	"golang.org/x/tools/go/ssa"
	"golang.org/x/tools/go/ssa/ssautil"
)

const modPath = "github.com/llir/llvm"

type Engine struct {
	repo   string
	verif  string
	fset   *token.FileSet
	prog   *ssa.Program
	pkgs   map[string]*ssa.Package // by import path
	ppkgs  map[string]*packages.Package
	cons   map[*ssa.Function]*Contract
	icons  map[string]*Contract // interface method contracts: "pkgpath.Type.Method"
	extcon map[string]*Contract // external function contracts by full name
	specs  map[string]*SpecFunc // "pkg\x00name" and "\x00name"
	axioms []*Axiom
	allCon []*Contract
	stale    []string        // contracts whose function no longer exists (dropped; the verdict cannot be 'holds')
	purePkgs map[string]bool // assumption A4: functions of these packages are pure functions of their arguments
	immHeaps map[string]bool // heap components never written by /repo (fields of struct types of pure packages)
	pureElemHeaps map[string]bool // element heaps of slices of pure-package node types (written only where an accessor result is allocated)

	structIDs map[string]*structInfo
	typeTags  map[string]int
	tagTypes  []types.Type
	fieldIDs  map[string]int
	timeoutS  int
	jobs      int
	verbose   bool
}

type structInfo struct {
	id    string
	st    *types.Struct
	named types.Type
	sort  Sort
	ctor  string
	sels  []string
}

func NewEngine(repo, verif string, patterns []string) (*Engine, error) {
	e := &Engine{repo: repo, verif: verif, pkgs: map[string]*ssa.Package{}, ppkgs: map[string]*packages.Package{},
		cons: map[*ssa.Function]*Contract{}, icons: map[string]*Contract{}, extcon: map[string]*Contract{},
		specs: map[string]*SpecFunc{}, purePkgs: map[string]bool{}, immHeaps: map[string]bool{}, pureElemHeaps: map[string]bool{}, structIDs: map[string]*structInfo{}, typeTags: map[string]int{}, fieldIDs: map[string]int{}}
	e.fset = token.NewFileSet()
	cfg := &packages.Config{Mode: packages.LoadAllSyntax, Dir: repo, BuildFlags: []string{"-tags=verif"}, Fset: e.fset,
		Env: append(os.Environ(), "GOFLAGS=-mod=mod", "GOPROXY=off", "GOSUMDB=off", "GOTOOLCHAIN=local")}
	pkgs, err := packages.Load(cfg, patterns...)
	if err != nil {
		return nil, err
	}
	nerr := 0
	packages.Visit(pkgs, nil, func(p *packages.Package) {
		for _, er := range p.Errors {
			fmt.Fprintf(os.Stderr, "load error: %v\n", er)
			nerr++
		}
	})
	if nerr > 0 {
		return nil, fmt.Errorf("%d package load errors", nerr)
	}
	prog, _ := ssautil.AllPackages(pkgs, ssa.NaiveForm)
	prog.Build()
	e.prog = prog
	for _, p := range prog.AllPackages() {
		e.pkgs[p.Pkg.Path()] = p
	}
	packages.Visit(pkgs, nil, func(p *packages.Package) { e.ppkgs[p.PkgPath] = p })
	// deterministic dynamic-type tags: every named type of the program (and its pointer type),
	// numbered in the order of their type strings (map iteration order must not leak into the VCs)
	var named []types.Type
	for _, p := range prog.AllPackages() {
		for _, m := range p.Members {
			if tn, ok := m.(*ssa.Type); ok {
				named = append(named, tn.Type(), types.NewPointer(tn.Type()))
			}
		}
	}
	sort.Slice(named, func(i, j int) bool { return types.TypeString(named[i], nil) < types.TypeString(named[j], nil) })
	for _, t := range named {
		e.typeTag(t)
	}
	return e, nil
}

// LoadContracts reads zz_contracts_verif.go of every loaded /repo package and
// the global spec files in /verif/specs.
func (e *Engine) LoadContracts() error {
	var files []struct{ path, pkg string }
	var paths []string
	for path := range e.pkgs {
		paths = append(paths, path)
	}
	sort.Strings(paths)
	specs, _ := filepath.Glob(filepath.Join(e.verif, "specs", "*.spec"))
	sort.Strings(specs)
	for _, s := range specs {
		files = append(files, struct{ path, pkg string }{s, ""})
	}
	for _, path := range paths {
		if path != modPath && !strings.HasPrefix(path, modPath+"/") {
			continue
		}
		dir := filepath.Join(e.repo, strings.TrimPrefix(strings.TrimPrefix(path, modPath), "/"))
		f := filepath.Join(dir, "zz_contracts_verif.go")
		if _, err := os.Stat(f); err == nil {
			files = append(files, struct{ path, pkg string }{f, path})
		}
	}
	for _, f := range files {
		sf, err := ParseSpecFile(f.path, f.pkg)
		if err != nil {
			return err
		}
		for _, s := range sf.Specs {
			key := s.Pkg + "\x00" + s.Name
			if _, dup := e.specs[key]; dup {
				return fmt.Errorf("%s:%d: duplicate spec function %s", s.File, s.Line, s.Name)
			}
			e.specs[key] = s
		}
		e.axioms = append(e.axioms, sf.Axioms...)
		for _, pp := range sf.PurePkgs {
			e.purePkgs[pp] = true
		}
		for _, c := range sf.Contracts {
			if err := e.bindContract(c); err != nil {
				if strings.Contains(err.Error(), "contract-stale") {
					// the function a contract names no longer exists (renamed, split, closure moved): the contract is
					// dropped and the check goes on -- what the statics, the other units and the stand-ins find
					// is still reported; with nothing found the verdict is UNDECIDED, never "holds"
					e.stale = append(e.stale, err.Error())
					continue
				}
				return err
			}
			e.allCon = append(e.allCon, c)
		}
	}
	return nil
}

// bindContract resolves a contract key to an SSA function, an interface
// method, or an external function.
func (e *Engine) bindContract(c *Contract) error {
	key := strings.TrimSpace(c.Key)
	fail := func(f string, a ...interface{}) error {
		return fmt.Errorf("%s:%d: contract-stale %s: %s", c.File, c.Line, key, fmt.Sprintf(f, a...))
	}
	// external: "ext strings.IndexByte" ; interface: "iface types.Type.Equal"
	if strings.HasPrefix(key, "ext ") {
		name := strings.TrimSpace(key[4:])
		c.Trusted = true
		fn, err := e.lookupExternal(name)
		if err != nil {
			if strings.Contains(err.Error(), "package not loaded") {
				return nil // not reachable from the packages under verification
			}
			return fail("%v", err)
		}
		e.cons[fn] = c
		e.extcon[name] = c
		return nil
	}
	if strings.HasPrefix(key, "iface ") {
		name := strings.TrimSpace(key[6:])
		if c.Pkg != "" && !strings.Contains(name, "/") && strings.Count(name, ".") == 1 {
			name = c.Pkg + "." + name
		}
		e.icons[name] = c
		return nil
	}
	pkg := e.pkgs[c.Pkg]
	if pkg == nil {
		return fail("package %q not loaded", c.Pkg)
	}
	fn, err := e.lookupFunc(pkg, key)
	if err != nil {
		return fail("%v", err)
	}
	if _, dup := e.cons[fn]; dup {
		return fail("duplicate contract")
	}
	e.cons[fn] = c
	return nil
}

// lookupExternal resolves "pkg/path.Func" or "(*pkg/path.T).Method" / "pkg/path.T.Method".
func (e *Engine) lookupExternal(name string) (*ssa.Function, error) {
	ptr := false
	n := name
	if strings.HasPrefix(n, "(*") {
		ptr = true
		n = strings.Replace(n[2:], ")", "", 1)
	}
	// longest package path prefix
	var best *ssa.Package
	bestLen := -1
	for path, p := range e.pkgs {
		if strings.HasPrefix(n, path+".") && len(path) > bestLen {
			best, bestLen = p, len(path)
		}
	}
	if best == nil {
		return nil, fmt.Errorf("external %s: package not loaded", name)
	}
	rest := n[bestLen+1:]
	key := rest
	if i := strings.Index(rest, "."); i >= 0 {
		if ptr {
			key = "(*" + rest[:i] + ")." + rest[i+1:]
		}
	}
	return e.lookupFunc(best, key)
}

// lookupFunc resolves "Name", "(*T).M", "T.M", with optional "$k" suffixes.
func (e *Engine) lookupFunc(pkg *ssa.Package, key string) (*ssa.Function, error) {
	var anon []string
	if i := strings.Index(key, "$"); i >= 0 {
		anon = strings.Split(key[i+1:], "$")
		key = key[:i]
	}
	var fn *ssa.Function
	if strings.Contains(key, ".") {
		i := strings.LastIndex(key, ".")
		recv, meth := key[:i], key[i+1:]
		ptr := false
		recv = strings.TrimSpace(recv)
		if strings.HasPrefix(recv, "(") {
			recv = strings.TrimSuffix(strings.TrimPrefix(recv, "("), ")")
		}
		if strings.HasPrefix(recv, "*") {
			ptr = true
			recv = recv[1:]
		}
		tn := pkg.Type(recv)
		if tn == nil {
			return nil, fmt.Errorf("no type %s", recv)
		}
		var T types.Type = tn.Type()
		if ptr {
			T = types.NewPointer(T)
		}
		sel := e.prog.MethodSets.MethodSet(T).Lookup(pkg.Pkg, meth)
		if sel == nil {
			return nil, fmt.Errorf("no method %s on %s", meth, T)
		}
		fn = e.prog.MethodValue(sel)
		if fn != nil && fn.Synthetic != "" {
			// wrapper: resolve to the declared method
			if obj, ok := sel.Obj().(*types.Func); ok {
				if f2 := e.prog.FuncValue(obj); f2 != nil {
					fn = f2
				}
			}
		}
	} else {
		fn = pkg.Func(key)
	}
	if fn == nil {
		return nil, fmt.Errorf("no function %s", key)
	}
	for _, a := range anon {
		var k int
		fmt.Sscanf(a, "%d", &k)
		if k < 1 || k > len(fn.AnonFuncs) {
			return nil, fmt.Errorf("no anonymous function $%d", k)
		}
		fn = fn.AnonFuncs[k-1]
	}
	return fn, nil
}

// ---------------------------------------------------------------------------
// Sorts

func typeID(t types.Type) string {
	s := types.TypeString(t, func(p *types.Package) string { return p.Name() })
	return sanitize(s)
}

func (e *Engine) structOf(t types.Type) *structInfo {
	st, ok := t.Underlying().(*types.Struct)
	if !ok {
		panic("structOf non-struct " + t.String())
	}
	id := typeID(t)
	if _, isNamed := t.(*types.Named); !isNamed {
		id = "anon_" + id
		if len(id) > 60 {
			id = fmt.Sprintf("anon%d_%s", len(e.structIDs), id[:40])
		}
	}
	if si, ok := e.structIDs[types.TypeString(t, nil)]; ok {
		return si
	}
	si := &structInfo{id: id, st: st, named: t, sort: Sort("T_" + id), ctor: "mk_" + id}
	e.structIDs[types.TypeString(t, nil)] = si
	var sorts []Sort
	for i := 0; i < st.NumFields(); i++ {
		si.sels = append(si.sels, fmt.Sprintf("%s_f%d_%s", id, i, sanitize(st.Field(i).Name())))
		sorts = append(sorts, e.sortOf(st.Field(i).Type()))
	}
	if st.NumFields() == 0 {
		si.sels = append(si.sels, id+"_unit")
		sorts = append(sorts, SInt)
	}
	declareDatatype(si.sort, si.ctor, si.sels, sorts)
	if n, ok := t.(*types.Named); ok && n.Obj().Pkg() != nil && e.purePkgs[n.Obj().Pkg().Path()] {
		for i := 0; i < st.NumFields(); i++ {
			e.immHeaps[fieldHeapName(si, i)] = true
		}
	}
	return si
}

type unsupported string

func unsupp(f string, a ...interface{}) { panic(unsupported(fmt.Sprintf(f, a...))) }

func (e *Engine) sortOf(t types.Type) Sort {
	switch u := t.Underlying().(type) {
	case *types.Basic:
		switch {
		case u.Info()&types.IsBoolean != 0:
			return SBool
		case u.Info()&types.IsInteger != 0:
			return SInt
		case u.Info()&types.IsString != 0:
			return SStr
		case u.Info()&types.IsFloat != 0:
			return SInt // opaque: floats are never interpreted
		case u.Kind() == types.UnsafePointer:
			return SInt
		case u.Kind() == types.UntypedNil:
			return SInt
		}
	case *types.Pointer, *types.Map, *types.Signature, *types.Chan:
		return SInt
	case *types.Slice:
		return SSlc
	case *types.Interface:
		return SIfc
	case *types.Struct:
		return e.structOf(t).sort
	case *types.Array:
		return ArrSort(SInt, e.sortOf(u.Elem()))
	case *types.Tuple:
		return "TUPLE"
	}
	unsupp("no sort for type %s", t)
	return ""
}

var zeroArr = App("((as const (Array Int Int)) 0)", SArrI)

func (e *Engine) zero(t types.Type) *Term {
	switch u := t.Underlying().(type) {
	case *types.Basic:
		switch {
		case u.Info()&types.IsBoolean != 0:
			return False
		case u.Info()&types.IsString != 0:
			return MkStr(zeroArr, IntLit(0))
		default:
			return IntLit(0)
		}
	case *types.Pointer, *types.Map, *types.Signature, *types.Chan:
		return IntLit(0)
	case *types.Slice:
		return MkSlc(IntLit(0), IntLit(0), IntLit(0), IntLit(0))
	case *types.Interface:
		return NilIfc
	case *types.Struct:
		si := e.structOf(t)
		var args []*Term
		for i := 0; i < u.NumFields(); i++ {
			args = append(args, e.zero(u.Field(i).Type()))
		}
		if u.NumFields() == 0 {
			args = append(args, IntLit(0))
		}
		return Ctor(si.ctor, args...)
	case *types.Array:
		es := e.sortOf(u.Elem())
		return App(fmt.Sprintf("((as const %s) %s)", ArrSort(SInt, es), e.zero(u.Elem())), ArrSort(SInt, es))
	}
	unsupp("no zero for type %s", t)
	return nil
}

// intRange returns the inclusive range of an integer type, ok=false if not integer.
func intRange(t types.Type) (lo, hi *Term, ok bool) {
	b, isb := t.Underlying().(*types.Basic)
	if !isb || b.Info()&types.IsInteger == 0 {
		return nil, nil, false
	}
	pow := func(k uint) *Term {
		return BigLit(newBig(1).Lsh(newBig(1), k))
	}
	switch b.Kind() {
	case types.Int8:
		return IntLit(-128), IntLit(127), true
	case types.Int16:
		return IntLit(-32768), IntLit(32767), true
	case types.Int32:
		return IntLit(-(1 << 31)), IntLit(1<<31 - 1), true
	case types.Int, types.Int64:
		return Neg(pow(63)), Sub(pow(63), IntLit(1)), true
	case types.Uint8:
		return IntLit(0), IntLit(255), true
	case types.Uint16:
		return IntLit(0), IntLit(65535), true
	case types.Uint32:
		return IntLit(0), IntLit(1<<32 - 1), true
	case types.Uint, types.Uint64, types.Uintptr:
		return IntLit(0), Sub(pow(64), IntLit(1)), true
	case types.UntypedInt, types.UntypedRune:
		return nil, nil, false
	}
	return nil, nil, false
}

// typeTag returns the unique non-zero tag of a dynamic type.
func (e *Engine) typeTag(t types.Type) int {
	k := types.TypeString(t, nil)
	if id, ok := e.typeTags[k]; ok {
		return id
	}
	id := len(e.typeTags) + 1
	e.typeTags[k] = id
	e.tagTypes = append(e.tagTypes, t)
	return id
}

// fieldID numbers (struct type, field index) pairs.
func (e *Engine) fieldID(si *structInfo, i int) int {
	k := fmt.Sprintf("%s#%d", si.id, i)
	if id, ok := e.fieldIDs[k]; ok {
		return id
	}
	id := len(e.fieldIDs) + 1
	e.fieldIDs[k] = id
	return id
}

// resolveType resolves a type written in a spec ("int", "[]byte", "*fmtWriter", "types.Type").
func (e *Engine) resolveType(pkgPath, text string) (types.Type, error) {
	text = strings.TrimSpace(text)
	if strings.HasPrefix(text, "[]") {
		el, err := e.resolveType(pkgPath, text[2:])
		if err != nil {
			return nil, err
		}
		return types.NewSlice(el), nil
	}
	if strings.HasPrefix(text, "map[") {
		depth, end := 0, -1
		for i := 3; i < len(text); i++ {
			if text[i] == '[' {
				depth++
			} else if text[i] == ']' {
				depth--
				if depth == 0 {
					end = i
					break
				}
			}
		}
		if end < 0 {
			return nil, fmt.Errorf("bad map type %s", text)
		}
		kt, err := e.resolveType(pkgPath, text[4:end])
		if err != nil {
			return nil, err
		}
		vt, err := e.resolveType(pkgPath, text[end+1:])
		if err != nil {
			return nil, err
		}
		return types.NewMap(kt, vt), nil
	}
	if strings.HasPrefix(text, "*") {
		el, err := e.resolveType(pkgPath, text[1:])
		if err != nil {
			return nil, err
		}
		return types.NewPointer(el), nil
	}
	if text == "set" {
		return setType, nil
	}
	if text == "seq" {
		return seqType, nil
	}
	if text == "bytepred" {
		return bytePredType, nil
	}
	if obj := types.Universe.Lookup(text); obj != nil {
		if tn, ok := obj.(*types.TypeName); ok {
			return tn.Type(), nil
		}
	}
	if i := strings.Index(text, "."); i >= 0 {
		pname, tname := text[:i], text[i+1:]
		// find imported package by name
		if pp := e.ppkgs[pkgPath]; pp != nil {
			for ipath, ip := range pp.Imports {
				if ip.Name == pname || filepath.Base(ipath) == pname {
					if o := ip.Types.Scope().Lookup(tname); o != nil {
						return o.Type(), nil
					}
				}
			}
		}
		for path, p := range e.ppkgs {
			if (p.Name == pname || filepath.Base(path) == pname) && p.Types != nil {
				if o := p.Types.Scope().Lookup(tname); o != nil {
					return o.Type(), nil
				}
			}
		}
		return nil, fmt.Errorf("unknown type %s", text)
	}
	if pp := e.ppkgs[pkgPath]; pp != nil {
		if o := pp.Types.Scope().Lookup(text); o != nil {
			if _, ok := o.(*types.TypeName); ok {
				return o.Type(), nil
			}
		}
	}
	return nil, fmt.Errorf("unknown type %s", text)
}

// Spec-only types.
var bytePredType = types.NewSignatureType(nil, nil, nil, types.NewTuple(types.NewVar(token.NoPos, nil, "b", types.Typ[types.Uint8])), types.NewTuple(types.NewVar(token.NoPos, nil, "", types.Typ[types.Bool])), false)

var (
	setType = types.NewNamed(types.NewTypeName(token.NoPos, nil, "set", nil), types.NewMap(types.Typ[types.Int], types.Typ[types.Bool]), nil)
	seqType = types.NewNamed(types.NewTypeName(token.NoPos, nil, "seq", nil), types.NewSlice(types.Typ[types.Int]), nil)
)

var implPtrCache = map[string]bool{}

// allImplementersArePointers: every named type of the program implementing the
// interface does so through a pointer receiver type (so a non-nil interface
// value of this type holds a pointer).
func (e *Engine) allImplementersArePointers(t types.Type, it *types.Interface) bool {
	if it.NumMethods() == 0 {
		return false
	}
	k := types.TypeString(t, nil)
	if v, ok := implPtrCache[k]; ok {
		return v
	}
	res := true
	n := 0
	for _, p := range e.prog.AllPackages() {
		for _, m := range p.Members {
			tn, ok := m.(*ssa.Type)
			if !ok {
				continue
			}
			T := tn.Type()
			if _, isI := T.Underlying().(*types.Interface); isI {
				continue
			}
			if types.Implements(T, it) {
				if _, isP := T.Underlying().(*types.Pointer); !isP {
					res = false
				}
				n++
			} else if types.Implements(types.NewPointer(T), it) {
				n++
			}
		}
	}
	if n == 0 {
		res = false
	}
	implPtrCache[k] = res
	return res
}

// heapComponent resolves a component named in a reads clause: "T.f", "elems(T)", "ghost(g)", "cell(T)".
func (e *Engine) heapComponent(fx *FnExec, pkg, text string) (string, Sort, error) {
	text = strings.TrimSpace(text)
	switch {
	case strings.HasPrefix(text, "elems(") && strings.HasSuffix(text, ")"):
		t, err := e.resolveType(pkg, text[6:len(text)-1])
		if err != nil {
			return "", "", err
		}
		n, s := fx.elemHeapName(t)
		return n, s, nil
	case strings.HasPrefix(text, "cell(") && strings.HasSuffix(text, ")"):
		t, err := e.resolveType(pkg, text[5:len(text)-1])
		if err != nil {
			return "", "", err
		}
		n, s := fx.pheapName(t)
		return n, s, nil
	case (strings.HasPrefix(text, "mapdom(") || strings.HasPrefix(text, "mapval(")) && strings.HasSuffix(text, ")"):
		t, err := e.resolveType(pkg, text[7:len(text)-1])
		if err != nil {
			return "", "", err
		}
		mt, ok := t.Underlying().(*types.Map)
		if !ok {
			return "", "", fmt.Errorf("not a map type")
		}
		dn, vn, ds, vs := fx.mapHeapNames(mt)
		if strings.HasPrefix(text, "mapdom(") {
			return dn, ds, nil
		}
		return vn, vs, nil
	case strings.HasPrefix(text, "ghost(") && strings.HasSuffix(text, ")"):
		sf := e.findSpec(pkg, text[6:len(text)-1])
		if sf == nil || !sf.Ghost {
			return "", "", fmt.Errorf("unknown ghost state")
		}
		rt, err := e.resolveType(sf.Pkg, sf.Ret)
		if err != nil {
			return "", "", err
		}
		return "G_" + sf.Name, ArrSort(SInt, e.sortOf(rt)), nil
	}
	i := strings.LastIndex(text, ".")
	if i < 0 {
		return "", "", fmt.Errorf("expected T.f")
	}
	t, err := e.resolveType(pkg, text[:i])
	if err != nil {
		return "", "", err
	}
	si := e.structOf(t)
	for k := 0; k < si.st.NumFields(); k++ {
		if si.st.Field(k).Name() == text[i+1:] {
			return fieldHeapName(si, k), ArrSort(SInt, e.sortOf(si.st.Field(k).Type())), nil
		}
	}
	return "", "", fmt.Errorf("no field %s", text[i+1:])
}
