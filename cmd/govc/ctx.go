package main

// Verification-condition context: declarations, definitions, ordered
// assumptions, obligations.

import (
	"fmt"
	"strings"
)

type decl struct {
	name   string
	params []*Term // for define-fun with params
	args   []Sort  // for declare-fun
	ret    Sort
	body   *Term // define-fun body (nil => declare)
	rec    bool
}

// Obligation is one named proof obligation.
type Obligation struct {
	Name     string // unique within a function/behaviour
	Func     string
	Beh      string
	Kind     string // bounds, nil, ensures, requires-call, inv-entry, inv-pres, assert, cover ...
	Note     string // explanation attached to obligations that are not SMT goals of the code (frame of unknown callees)
	Pos      string
	Guard    *Term
	Goal     *Term
	nassume  int // number of assumptions visible
	ctx      *Ctx
	Cover    bool // expected to be satisfiable (vacuity guard): Goal is ignored, Guard must be SAT
	Trusted  []string
	ModelVars []modelVar // terms to evaluate in a counterexample
}

type modelVar struct {
	Name string
	T    *Term
}

type Ctx struct {
	assumeSeen map[string]bool
	decls   []*decl
	declIdx map[string]*decl
	defs    []*Term // definitional equalities of fresh names, always sound
	axioms  []namedTerm
	assumes []*Term
	nfresh  int
	obls    []*Obligation
	trusted map[string]bool
}

type namedTerm struct {
	name string
	t    *Term
}

func NewCtx() *Ctx {
	return &Ctx{declIdx: map[string]*decl{}, trusted: map[string]bool{}}
}

func sanitize(s string) string {
	var sb strings.Builder
	for _, c := range s {
		switch {
		case c >= 'a' && c <= 'z', c >= 'A' && c <= 'Z', c >= '0' && c <= '9', c == '_', c == '.', c == '$', c == '!':
			sb.WriteRune(c)
		default:
			sb.WriteByte('_')
		}
	}
	return sb.String()
}

func (c *Ctx) Fresh(prefix string, s Sort) *Term {
	c.nfresh++
	name := fmt.Sprintf("%s!%d", sanitize(prefix), c.nfresh)
	c.declare(&decl{name: name, ret: s})
	return Var(name, s)
}

// Const declares (idempotently) a named constant.
func (c *Ctx) Const(name string, s Sort) *Term {
	name = sanitize(name)
	if d, ok := c.declIdx[name]; ok {
		if d.ret != s {
			panic(fmt.Sprintf("const %s redeclared with sort %s (was %s)", name, s, d.ret))
		}
		return Var(name, s)
	}
	c.declare(&decl{name: name, ret: s})
	return Var(name, s)
}

func (c *Ctx) declare(d *decl) {
	if _, ok := c.declIdx[d.name]; ok {
		return
	}
	c.declIdx[d.name] = d
	c.decls = append(c.decls, d)
}

// DeclareFun declares an uninterpreted function.
func (c *Ctx) DeclareFun(name string, args []Sort, ret Sort) {
	c.declare(&decl{name: sanitize(name), args: args, ret: ret})
}

// DefineFun declares a defined function.
func (c *Ctx) DefineFun(name string, params []*Term, ret Sort, body *Term, rec bool) {
	c.declare(&decl{name: sanitize(name), params: params, ret: ret, body: body, rec: rec})
}

func (c *Ctx) HasDecl(name string) bool { _, ok := c.declIdx[sanitize(name)]; return ok }

// Name gives a (possibly large) term a fresh name to keep sharing explicit.
func (c *Ctx) Name(prefix string, t *Term) *Term {
	if len(t.Args) == 0 {
		return t
	}
	if t.str != "" && len(t.str) < 40 {
		return t
	}
	v := c.Fresh(prefix, t.S)
	c.defs = append(c.defs, App("=", SBool, v, t))
	nameDefs[v.Op] = t
	return v
}

func (c *Ctx) isFreshName(n string) bool { return strings.Contains(n, "!") }

func (c *Ctx) Assume(t *Term) {
	if t.IsTrue() {
		return
	}
	// conjunctions are recorded conjunct by conjunct (smaller, separately triggered facts)
	if t.Op == "and" {
		for _, a := range t.Args {
			c.Assume(a)
		}
		return
	}
	if t.Op == "=>" && len(t.Args) == 2 && t.Args[1].Op == "and" {
		for _, a := range t.Args[1].Args {
			c.Assume(Implies(t.Args[0], a))
		}
		return
	}
	// identical assumptions (type facts of repeated heap reads) are recorded once
	k := t.String()
	if c.assumeSeen == nil {
		c.assumeSeen = map[string]bool{}
	}
	if c.assumeSeen[k] {
		return
	}
	c.assumeSeen[k] = true
	c.assumes = append(c.assumes, t)
}

func (c *Ctx) Axiom(name string, t *Term) {
	c.axioms = append(c.axioms, namedTerm{name, t})
}

func (c *Ctx) AddObl(o *Obligation) {
	if o.Goal != nil && o.Goal.IsTrue() && !o.Cover {
		// trivially true by simplification: still counted, discharged syntactically
	}
	o.ctx = c
	o.nassume = len(c.assumes)
	c.obls = append(c.obls, o)
}

// SMT renders the query for an obligation. Unsat = discharged (for covers: sat = ok).
func (o *Obligation) SMT(withModel bool) string {
	c := o.ctx
	var sb strings.Builder
	if withModel {
		sb.WriteString("(set-option :produce-models true)\n")
	}
	sb.WriteString("(set-logic ALL)\n")
	for _, d := range datatypeOrder {
		fmt.Fprintf(&sb, "(declare-datatypes ((%s 0)) (((%s", d.sort, d.ctor)
		for i, s := range d.sels {
			fmt.Fprintf(&sb, " (%s %s)", s, d.sorts[i])
		}
		sb.WriteString("))))\n")
	}
	shlPos := sb.Len()
	// relevance: include everything (queries are small); declarations in order.
	for _, d := range c.decls {
		if d.body != nil {
			continue
		}
		if d.args != nil {
			fmt.Fprintf(&sb, "(declare-fun %s (", d.name)
			for i, a := range d.args {
				if i > 0 {
					sb.WriteString(" ")
				}
				sb.WriteString(string(a))
			}
			fmt.Fprintf(&sb, ") %s)\n", d.ret)
		} else {
			fmt.Fprintf(&sb, "(declare-fun %s () %s)\n", d.name, d.ret)
		}
	}
	for _, d := range c.decls {
		if d.body == nil {
			continue
		}
		kw := "define-fun"
		if d.rec {
			kw = "define-fun-rec"
		}
		fmt.Fprintf(&sb, "(%s %s (", kw, d.name)
		for _, p := range d.params {
			fmt.Fprintf(&sb, "(%s %s)", p.Op, p.S)
		}
		fmt.Fprintf(&sb, ") %s %s)\n", d.ret, d.body)
	}
	for _, a := range c.axioms {
		fmt.Fprintf(&sb, "(assert %s) ; axiom %s\n", a.t, a.name)
	}
	// cone of influence over the definitional facts (dropping facts is always sound)
	reach := map[string]bool{}
	freeSyms(o.Guard, reach)
	if o.Goal != nil {
		freeSyms(o.Goal, reach)
	}
	for _, a := range c.assumes[:o.nassume] {
		freeSyms(a, reach)
	}
	for _, mv := range o.ModelVars {
		freeSyms(mv.T, reach)
	}
	for _, a := range c.axioms {
		freeSyms(a.t, reach)
	}
	included := make([]bool, len(c.defs))
	expanded := map[string]bool{}
	for changed := true; changed; {
		changed = false
		for _, d := range c.decls {
			if d.body != nil && reach[d.name] && !expanded[d.name] {
				expanded[d.name] = true
				freeSyms(d.body, reach)
				changed = true
			}
		}
		for i, d := range c.defs {
			if included[i] {
				continue
			}
			take := false
			if d.Op == "=" && len(d.Args) == 2 && len(d.Args[0].Args) == 0 && d.Args[0].lit == nil && c.isFreshName(d.Args[0].Op) {
				take = reach[d.Args[0].Op]
			} else {
				syms := map[string]bool{}
				freeSyms(d, syms)
				nconst := 0
				for sy := range syms {
					if dd, ok := c.declIdx[sy]; ok && dd.args == nil && dd.body == nil {
						nconst++
						if reach[sy] {
							take = true
						}
					}
				}
				if nconst == 0 {
					take = true
				}
			}
			if take {
				included[i] = true
				changed = true
				freeSyms(d, reach)
			}
		}
	}
	for i, d := range c.defs {
		if included[i] {
			fmt.Fprintf(&sb, "(assert %s)\n", d)
		}
	}
	for _, a := range c.assumes[:o.nassume] {
		fmt.Fprintf(&sb, "(assert %s)\n", a)
	}
	fmt.Fprintf(&sb, "(assert %s) ; guard\n", o.Guard)
	if !o.Cover {
		fmt.Fprintf(&sb, "(assert (not %s)) ; goal %s\n", o.Goal, o.Name)
	}
	if out := sb.String(); strings.Contains(out[shlPos:], "(shl ") || strings.Contains(out[shlPos:], "(consarr ") {
		pre := ""
		hasShl := strings.Contains(out[shlPos:], "(shl ")
		hasCons := strings.Contains(out[shlPos:], "(consarr ")
		if hasShl {
			pre += "(declare-fun shl ((Array Int Int) Int) (Array Int Int))\n" +
				"(assert (forall ((a (Array Int Int)) (o Int) (k Int)) (! (= (select (shl a o) k) (select a (+ o k))) :pattern ((select (shl a o) k)))))\n"
		}
		if hasCons {
			pre += "(declare-fun consarr (Int (Array Int Int)) (Array Int Int))\n" +
				"(assert (forall ((c Int) (a (Array Int Int)) (k Int)) (! (= (select (consarr c a) k) (ite (= k 0) c (select a (- k 1)))) :pattern ((select (consarr c a) k)))))\n"
			if hasShl {
				pre += "(assert (forall ((c Int) (a (Array Int Int)) (o Int)) (! (=> (>= o 1) (= (shl (consarr c a) o) (shl a (- o 1)))) :pattern ((shl (consarr c a) o)))))\n"
			}
		}
		sb.Reset()
		sb.WriteString(out[:shlPos] + pre + out[shlPos:])
	}
	sb.WriteString("(check-sat)\n")
	if withModel {
		for _, mv := range o.ModelVars {
			fmt.Fprintf(&sb, "(echo \"@@ %s\")\n(get-value (%s))\n", mv.Name, mv.T)
		}
	}
	return sb.String()
}
