package main

// Finite-domain units (property C18): where the domain of a property is finite
// and given by the declarations (every declared constant of an enumerated
// type), the postcondition is decided by executing the SSA of the real
// functions on every value of the domain: symbolic execution in which every
// value is a literal, every branch condition folds to a constant and every
// loop is unrolled to its (constant) trip count with the unwinding checked
// (fuel) -- complete for the domain, no solver involved. Package-level tables
// get the values the package initialiser stores into them; a sweep checks that
// nothing else ever writes them. A range over a map is executed in ascending
// and in descending key order and both results must agree.

import (
	"fmt"
	"go/constant"
	"go/token"
	"go/types"
	"math/big"
	"sort"
	"strings"

	"golang.org/x/tools/go/ssa"
)

type cval interface{}

type ccell struct { // a memory cell (local or global)
	v      cval
	isTemp bool // allocated inside the guarded block of a symbolic branch
}
type celem struct {                        // address of an array / slice element
	arr *[]cval
	i   int
}
type cslice struct {
	arr    *[]cval
	lo, hi int
}
type cmap struct {
	m    map[string]cval
	keys map[string]cval
}
type ctuple []cval
type cerr struct{ msg string }
type ciface struct {
	t types.Type
	v cval
}
type citer struct {
	m    *cmap
	keys []string
	pos  int
}
type cpanic struct{ msg string }

// Symbolic flag sets: a value conc | sum of b_k*2^k over the symbolic bit positions, the b_k
// being independent unknown booleans. Only the operations a flag printer performs are
// supported: masking with a literal, comparison with 0, and branching on a single bit.
type csym struct {
	conc *big.Int
	bits map[int]bool
}
type csymbit struct{ k int }           // the value b_k * 2^k
type csymcond struct {                  // the condition b_k == pos
	k   int
	pos bool
}
type cguard struct {                    // a slice element present iff the condition holds
	c csymcond
	v cval
}
type cgjoin struct {                    // strings.Join over a slice with guarded elements
	elems []cval
	sep   string
}

type interp struct {
	e       *Engine
	globals map[*ssa.Global]*ccell
	inited  map[*ssa.Package]bool
	fuel    int
	desc    bool // map iteration order: descending keys
	nonZero bool // symbolic run: the all-false assignment is excluded (covered by a separate concrete run)
	wlog    map[*ccell]cval // cells written while executing the guarded branch of a symbolic condition
	logging bool
}

type evalAbort struct{ msg string }

func (in *interp) abort(f string, a ...interface{}) { panic(evalAbort{fmt.Sprintf(f, a...)}) }

func bigOf(v cval) *big.Int {
	if b, ok := v.(*big.Int); ok {
		return b
	}
	panic(evalAbort{fmt.Sprintf("integer expected, got %T", v)})
}

func wrapInt(v *big.Int, t types.Type) *big.Int {
	b, ok := t.Underlying().(*types.Basic)
	if !ok || b.Info()&types.IsInteger == 0 {
		return v
	}
	bits := 64
	switch b.Kind() {
	case types.Int8, types.Uint8:
		bits = 8
	case types.Int16, types.Uint16:
		bits = 16
	case types.Int32, types.Uint32:
		bits = 32
	}
	mod := new(big.Int).Lsh(big.NewInt(1), uint(bits))
	r := new(big.Int).Mod(v, mod)
	if b.Info()&types.IsUnsigned == 0 {
		half := new(big.Int).Rsh(mod, 1)
		if r.Cmp(half) >= 0 {
			r.Sub(r, mod)
		}
	}
	return r
}

func (in *interp) zero(t types.Type) cval {
	switch u := t.Underlying().(type) {
	case *types.Basic:
		switch {
		case u.Info()&types.IsBoolean != 0:
			return false
		case u.Info()&types.IsInteger != 0:
			return big.NewInt(0)
		case u.Info()&types.IsString != 0:
			return ""
		}
	case *types.Array:
		a := make([]cval, u.Len())
		for i := range a {
			a[i] = in.zero(u.Elem())
		}
		return &a
	case *types.Pointer, *types.Map, *types.Slice, *types.Interface, *types.Signature:
		return nil
	case *types.Struct:
		a := make([]cval, u.NumFields())
		for i := range a {
			a[i] = in.zero(u.Field(i).Type())
		}
		return &a
	}
	in.abort("zero value of %s", t)
	return nil
}

func keyString(v cval) string {
	switch x := v.(type) {
	case *big.Int:
		// sortable decimal: sign and zero padding
		s := x.String()
		if x.Sign() < 0 {
			return "-" + fmt.Sprintf("%040s", s[1:])
		}
		return "+" + fmt.Sprintf("%040s", s)
	case string:
		return "s" + x
	case bool:
		return fmt.Sprint(x)
	}
	panic(evalAbort{fmt.Sprintf("map key of kind %T", v)})
}

func (in *interp) global(g *ssa.Global) *ccell {
	if g.Pkg != nil && !in.inited[g.Pkg] {
		in.initPkg(g.Pkg)
	}
	c := in.globals[g]
	if c == nil {
		c = &ccell{v: in.zero(g.Type().(*types.Pointer).Elem())}
		in.globals[g] = c
	}
	return c
}

// initPkg runs the package initialiser (stores of the table literals); initialisers
// of imported packages are not run (their variables are not read by the units).
func (in *interp) initPkg(p *ssa.Package) {
	in.inited[p] = true
	for _, m := range p.Members {
		if g, ok := m.(*ssa.Global); ok {
			if _, ok := in.globals[g]; !ok {
				in.globals[g] = &ccell{v: in.zero(g.Type().(*types.Pointer).Elem())}
			}
		}
	}
	if f := p.Func("init"); f != nil && f.Blocks != nil {
		saved := in.fuel
		in.fuel = 5000000
		in.call(f, nil)
		in.fuel = saved
	}
}

type frame struct {
	vals map[ssa.Value]cval
	prev *ssa.BasicBlock
}

func (in *interp) get(fr *frame, v ssa.Value) cval {
	switch x := v.(type) {
	case *ssa.Const:
		if x.Value == nil {
			return in.zero(x.Type())
		}
		switch x.Value.Kind() {
		case constant.Bool:
			return constant.BoolVal(x.Value)
		case constant.String:
			return constant.StringVal(x.Value)
		case constant.Int:
			b, _ := new(big.Int).SetString(x.Value.ExactString(), 10)
			return b
		}
		in.abort("constant %s", x)
	case *ssa.Global:
		return in.global(x)
	case *ssa.Function:
		return x
	}
	r, ok := fr.vals[v]
	if !ok {
		in.abort("no value for %s", v.Name())
	}
	return r
}

func (in *interp) load(addr cval) cval {
	switch a := addr.(type) {
	case *ccell:
		return a.v
	case celem:
		return (*a.arr)[a.i]
	}
	in.abort("load through %T", addr)
	return nil
}

func (in *interp) store(addr, v cval) {
	switch a := addr.(type) {
	case *ccell:
		if in.logging {
			if _, ok := in.wlog[a]; !ok {
				in.wlog[a] = a.v
			}
		}
		a.v = v
	case celem:
		(*a.arr)[a.i] = v
	default:
		in.abort("store through %T", addr)
	}
}

// call executes fn on concrete arguments. It returns the results, or a panic value.
func (in *interp) call(fn *ssa.Function, args []cval) (res []cval, pv *cpanic) {
	if fn.Blocks == nil {
		in.abort("call of %s: no body", fn)
	}
	fr := &frame{vals: map[ssa.Value]cval{}}
	for i, p := range fn.Params {
		fr.vals[p] = args[i]
	}
	b := fn.Blocks[0]
	for {
		var next *ssa.BasicBlock
		for _, ins := range b.Instrs {
			nx, rs, returned, p := in.exec(fr, fn, b, ins)
			if p != nil {
				return nil, p
			}
			if returned {
				return rs, nil
			}
			if nx != nil {
				next = nx
			}
		}
		if next == nil {
			in.abort("block without terminator in %s", fn)
		}
		fr.prev, b = b, next
	}
}

// step executes a non-terminator instruction (used for the guarded block of a symbolic branch).
func (in *interp) step(fr *frame, fn *ssa.Function, b *ssa.BasicBlock, ins ssa.Instruction) *cpanic {
	_, _, returned, p := in.exec(fr, fn, b, ins)
	if returned {
		in.abort("return under a symbolic condition")
	}
	return p
}

// exec executes one instruction: it yields the next block (terminators), the results (return) or a panic.
func (in *interp) exec(fr *frame, fn *ssa.Function, b *ssa.BasicBlock, ins ssa.Instruction) (next *ssa.BasicBlock, rets []cval, returned bool, pv *cpanic) {
	prev := fr.prev
	_ = prev
	in.fuel--
	if in.fuel <= 0 {
		in.abort("unwinding bound exceeded in %s", fn)
	}

	switch x := ins.(type) {
	case *ssa.DebugRef, *ssa.RunDefers:
	case *ssa.Defer:
		in.abort("defer in %s", fn)
	case *ssa.Phi:
		for k, p := range b.Preds {
			if p == prev {
				fr.vals[x] = in.get(fr, x.Edges[k])
			}
		}
	case *ssa.Alloc:
		et := x.Type().(*types.Pointer).Elem()
		fr.vals[x] = &ccell{v: in.zero(et), isTemp: in.logging}
	case *ssa.Store:
		in.store(in.get(fr, x.Addr), in.copyVal(in.get(fr, x.Val)))
	case *ssa.UnOp:
		v := in.get(fr, x.X)
		switch x.Op {
		case token.MUL:
			fr.vals[x] = in.copyVal(in.load(v))
		case token.NOT:
			fr.vals[x] = !v.(bool)
		case token.SUB:
			fr.vals[x] = wrapInt(new(big.Int).Neg(bigOf(v)), x.Type())
		case token.XOR:
			fr.vals[x] = wrapInt(new(big.Int).Not(bigOf(v)), x.Type())
		default:
			in.abort("unary %s", x.Op)
		}
	case *ssa.BinOp:
		r, p := in.binop(x, in.get(fr, x.X), in.get(fr, x.Y))
		if p != nil {
			return nil, nil, false, p
		}
		fr.vals[x] = r
	case *ssa.Convert:
		v := in.get(fr, x.X)
		if bi, ok := v.(*big.Int); ok {
			if bt, ok := x.Type().Underlying().(*types.Basic); ok && bt.Info()&types.IsInteger != 0 {
				fr.vals[x] = wrapInt(bi, x.Type())
				break
			}
		}
		if s, ok := v.(string); ok {
			if _, ok := x.Type().Underlying().(*types.Basic); ok {
				fr.vals[x] = s
				break
			}
		}
		in.abort("conversion %s -> %s", x.X.Type(), x.Type())
	case *ssa.ChangeType:
		fr.vals[x] = in.get(fr, x.X)
	case *ssa.MakeInterface:
		fr.vals[x] = ciface{x.X.Type(), in.get(fr, x.X)}
	case *ssa.ChangeInterface:
		fr.vals[x] = in.get(fr, x.X)
	case *ssa.Index:
		base, idx := in.get(fr, x.X), bigOf(in.get(fr, x.Index))
		switch bv := base.(type) {
		case string:
			if !idx.IsInt64() || idx.Int64() < 0 || idx.Int64() >= int64(len(bv)) {
				return nil, nil, false, &cpanic{"index out of range"}
			}
			fr.vals[x] = big.NewInt(int64(bv[idx.Int64()]))
		case *[]cval:
			if !idx.IsInt64() || idx.Int64() < 0 || idx.Int64() >= int64(len(*bv)) {
				return nil, nil, false, &cpanic{"index out of range"}
			}
			fr.vals[x] = (*bv)[idx.Int64()]
		default:
			in.abort("index of %T", base)
		}
	case *ssa.IndexAddr:
		base, idx := in.get(fr, x.X), bigOf(in.get(fr, x.Index))
		var arr *[]cval
		lo, n := 0, 0
		switch bv := base.(type) {
		case *ccell: // pointer to array
			arr = bv.v.(*[]cval)
			n = len(*arr)
		case cslice:
			arr, lo, n = bv.arr, bv.lo, bv.hi-bv.lo
		default:
			in.abort("IndexAddr on %T", base)
		}
		if !idx.IsInt64() || idx.Int64() < 0 || idx.Int64() >= int64(n) {
			return nil, nil, false, &cpanic{"index out of range"}
		}
		fr.vals[x] = celem{arr, lo + int(idx.Int64())}
	case *ssa.Slice:
		base := in.get(fr, x.X)
		bound := func(v ssa.Value, def int) int {
			if v == nil {
				return def
			}
			b := bigOf(in.get(fr, v))
			if !b.IsInt64() {
				return -1
			}
			return int(b.Int64())
		}
		switch bv := base.(type) {
		case string:
			lo, hi := bound(x.Low, 0), bound(x.High, len(bv))
			if lo < 0 || hi < lo || hi > len(bv) {
				return nil, nil, false, &cpanic{"slice bounds out of range"}
			}
			fr.vals[x] = bv[lo:hi]
		case *ccell:
			arr := bv.v.(*[]cval)
			lo, hi := bound(x.Low, 0), bound(x.High, len(*arr))
			if lo < 0 || hi < lo || hi > len(*arr) {
				return nil, nil, false, &cpanic{"slice bounds out of range"}
			}
			fr.vals[x] = cslice{arr, lo, hi}
		case cslice:
			lo, hi := bound(x.Low, 0), bound(x.High, bv.hi-bv.lo)
			if lo < 0 || hi < lo || bv.lo+hi > len(*bv.arr) {
				return nil, nil, false, &cpanic{"slice bounds out of range"}
			}
			fr.vals[x] = cslice{bv.arr, bv.lo + lo, bv.lo + hi}
		default:
			in.abort("slice of %T", base)
		}
	case *ssa.FieldAddr:
		base := in.get(fr, x.X)
		switch bv := base.(type) {
		case *ccell:
			arr, ok := bv.v.(*[]cval)
			if !ok {
				in.abort("FieldAddr on a cell holding %T", bv.v)
			}
			fr.vals[x] = celem{arr, x.Field}
		case celem:
			arr, ok := (*bv.arr)[bv.i].(*[]cval)
			if !ok {
				in.abort("FieldAddr on an element holding %T", (*bv.arr)[bv.i])
			}
			fr.vals[x] = celem{arr, x.Field}
		case nil:
			return nil, nil, false, &cpanic{"nil pointer dereference"}
		default:
			in.abort("FieldAddr on %T", base)
		}
	case *ssa.Field:
		arr, ok := in.get(fr, x.X).(*[]cval)
		if !ok {
			in.abort("Field of %T", in.get(fr, x.X))
		}
		fr.vals[x] = (*arr)[x.Field]
	case *ssa.MakeSlice:
		n := bigOf(in.get(fr, x.Len))
		if !n.IsInt64() || n.Int64() < 0 || n.Int64() > 1<<20 {
			in.abort("make: length %s", n)
		}
		arr := make([]cval, n.Int64())
		for i := range arr {
			arr[i] = in.zero(x.Type().Underlying().(*types.Slice).Elem())
		}
		fr.vals[x] = cslice{&arr, 0, len(arr)}
	case *ssa.MakeMap:
		fr.vals[x] = &cmap{m: map[string]cval{}, keys: map[string]cval{}}
	case *ssa.MapUpdate:
		m := in.get(fr, x.Map).(*cmap)
		k := in.get(fr, x.Key)
		m.m[keyString(k)] = in.get(fr, x.Value)
		m.keys[keyString(k)] = k
	case *ssa.Lookup:
		base := in.get(fr, x.X)
		switch bv := base.(type) {
		case *cmap:
			v, ok := bv.m[keyString(in.get(fr, x.Index))]
			if !ok {
				v = in.zero(x.X.Type().Underlying().(*types.Map).Elem())
			}
			if x.CommaOk {
				fr.vals[x] = ctuple{v, ok}
			} else {
				fr.vals[x] = v
			}
		case nil:
			v := in.zero(x.X.Type().Underlying().(*types.Map).Elem())
			if x.CommaOk {
				fr.vals[x] = ctuple{v, false}
			} else {
				fr.vals[x] = v
			}
		default:
			in.abort("lookup in %T", base)
		}
	case *ssa.Range:
		m, ok := in.get(fr, x.X).(*cmap)
		if !ok {
			in.abort("range over %s", x.X.Type())
		}
		var ks []string
		for k := range m.m {
			ks = append(ks, k)
		}
		sort.Strings(ks)
		if in.desc {
			for i, j := 0, len(ks)-1; i < j; i, j = i+1, j-1 {
				ks[i], ks[j] = ks[j], ks[i]
			}
		}
		fr.vals[x] = &citer{m: m, keys: ks}
	case *ssa.Next:
		it := in.get(fr, x.Iter).(*citer)
		if it.pos >= len(it.keys) {
			fr.vals[x] = ctuple{false, nil, nil}
		} else {
			k := it.keys[it.pos]
			it.pos++
			fr.vals[x] = ctuple{true, it.m.keys[k], it.m.m[k]}
		}
	case *ssa.Extract:
		fr.vals[x] = in.get(fr, x.Tuple).(ctuple)[x.Index]
	case *ssa.Call:
		r, p := in.doCall(fr, x.Common())
		if p != nil {
			return nil, nil, false, p
		}
		switch len(r) {
		case 0:
		case 1:
			fr.vals[x] = r[0]
		default:
			fr.vals[x] = ctuple(r)
		}
	case *ssa.If:
		if sc, isSym := in.get(fr, x.Cond).(csymcond); isSym {
			// if b_k { then } with the else edge being the join: run the guarded block, then turn what it
			// appended to a slice into guarded elements
			thenB, join := b.Succs[0], b.Succs[1]
			if !sc.pos {
				thenB, join = b.Succs[1], b.Succs[0]
			}
			if len(thenB.Succs) != 1 || thenB.Succs[0] != join || len(thenB.Preds) != 1 {
				in.abort("symbolic branch that is not of the form if b { ... }")
			}
			if in.logging {
				in.abort("nested symbolic branches")
			}
			in.logging, in.wlog = true, map[*ccell]cval{}
			for _, ins2 := range thenB.Instrs {
				if _, isJump := ins2.(*ssa.Jump); isJump {
					break
				}
				if pv := in.step(fr, fn, thenB, ins2); pv != nil {
					in.abort("panic under a symbolic condition: %s", pv.msg)
				}
			}
			in.logging = false
			for cell, oldv := range in.wlog {
				if cell.isTemp {
					continue
				}
				nv, ok1 := cell.v.(cslice)
				var oldElems []cval
				switch ov := oldv.(type) {
				case cslice:
					oldElems = (*ov.arr)[ov.lo:ov.hi]
				case nil:
				default:
					ok1 = false
				}
				if !ok1 || nv.hi-nv.lo < len(oldElems) {
					in.abort("symbolic branch changes a variable other than by appending to a slice")
				}
				elems := append([]cval{}, (*nv.arr)[nv.lo:nv.hi]...)
				for i := range oldElems {
					if fmt.Sprint(elems[i]) != fmt.Sprint(oldElems[i]) {
						in.abort("symbolic branch rewrites slice elements")
					}
				}
				for i := len(oldElems); i < len(elems); i++ {
					if _, already := elems[i].(cguard); already {
						in.abort("nested guards")
					}
					elems[i] = cguard{csymcond{sc.k, true}, elems[i]}
					if !sc.pos {
						elems[i] = cguard{csymcond{sc.k, false}, elems[i].(cguard).v}
					}
				}
				cell.v = cslice{&elems, 0, len(elems)}
			}
			in.wlog = nil
			next = join
			break
		}
		c, ok := in.get(fr, x.Cond).(bool)
		if !ok {
			in.abort("branch condition is not a literal")
		}
		if c {
			next = b.Succs[0]
		} else {
			next = b.Succs[1]
		}
	case *ssa.Jump:
		next = b.Succs[0]
	case *ssa.Return:
		var rs []cval
		for _, r := range x.Results {
			rs = append(rs, in.get(fr, r))
		}
		return nil, rs, true, nil
	case *ssa.Panic:
		return nil, nil, false, &cpanic{fmt.Sprint(in.get(fr, x.X))}
	default:
		in.abort("unsupported instruction %T in %s", ins, fn)
	}
	return next, nil, false, nil
}

// copyVal: arrays are values (copied on load/store); everything else is immutable or a reference.
func (in *interp) copyVal(v cval) cval {
	if a, ok := v.(*[]cval); ok {
		c := make([]cval, len(*a))
		copy(c, *a)
		return &c
	}
	return v
}

func (in *interp) binop(x *ssa.BinOp, a, b cval) (cval, *cpanic) {
	if r, ok := in.symBinop(x, a, b); ok {
		return r, nil
	}
	switch av := a.(type) {
	case string:
		bv := b.(string)
		switch x.Op {
		case token.ADD:
			return av + bv, nil
		case token.EQL:
			return av == bv, nil
		case token.NEQ:
			return av != bv, nil
		case token.LSS:
			return av < bv, nil
		case token.LEQ:
			return av <= bv, nil
		case token.GTR:
			return av > bv, nil
		case token.GEQ:
			return av >= bv, nil
		}
	case bool:
		bv := b.(bool)
		switch x.Op {
		case token.EQL:
			return av == bv, nil
		case token.NEQ:
			return av != bv, nil
		}
	case *big.Int:
		bv := bigOf(b)
		c := av.Cmp(bv)
		switch x.Op {
		case token.EQL:
			return c == 0, nil
		case token.NEQ:
			return c != 0, nil
		case token.LSS:
			return c < 0, nil
		case token.LEQ:
			return c <= 0, nil
		case token.GTR:
			return c > 0, nil
		case token.GEQ:
			return c >= 0, nil
		}
		r := new(big.Int)
		switch x.Op {
		case token.ADD:
			r.Add(av, bv)
		case token.SUB:
			r.Sub(av, bv)
		case token.MUL:
			r.Mul(av, bv)
		case token.QUO:
			if bv.Sign() == 0 {
				return nil, &cpanic{"division by zero"}
			}
			r.Quo(av, bv)
		case token.REM:
			if bv.Sign() == 0 {
				return nil, &cpanic{"division by zero"}
			}
			r.Rem(av, bv)
		case token.AND:
			r.And(av, bv)
		case token.OR:
			r.Or(av, bv)
		case token.XOR:
			r.Xor(av, bv)
		case token.AND_NOT:
			r.AndNot(av, bv)
		case token.SHL:
			if bv.Sign() < 0 {
				return nil, &cpanic{"negative shift"}
			}
			if !bv.IsInt64() || bv.Int64() > 128 {
				r.SetInt64(0)
			} else {
				r.Lsh(av, uint(bv.Int64()))
			}
		case token.SHR:
			if bv.Sign() < 0 {
				return nil, &cpanic{"negative shift"}
			}
			if !bv.IsInt64() || bv.Int64() > 128 {
				if av.Sign() < 0 {
					r.SetInt64(-1)
				}
			} else {
				r.Rsh(av, uint(bv.Int64()))
			}
		default:
			in.abort("integer operator %s", x.Op)
		}
		return wrapInt(r, x.Type()), nil
	case nil:
		switch x.Op {
		case token.EQL:
			return b == nil, nil
		case token.NEQ:
			return b != nil, nil
		}
	case cerr:
		switch x.Op {
		case token.EQL:
			return b != nil && false, nil
		case token.NEQ:
			return true, nil
		}
	}
	in.abort("operator %s on %T", x.Op, a)
	return nil, nil
}

func (in *interp) doCall(fr *frame, cc *ssa.CallCommon) ([]cval, *cpanic) {
	if cc.IsInvoke() {
		in.abort("dynamic call %s", cc.Method.Name())
	}
	var args []cval
	for _, a := range cc.Args {
		args = append(args, in.get(fr, a))
	}
	switch callee := cc.Value.(type) {
	case *ssa.Builtin:
		switch callee.Name() {
		case "len":
			switch v := args[0].(type) {
			case string:
				return []cval{big.NewInt(int64(len(v)))}, nil
			case cslice:
				return []cval{big.NewInt(int64(v.hi - v.lo))}, nil
			case *cmap:
				return []cval{big.NewInt(int64(len(v.m)))}, nil
			case nil:
				return []cval{big.NewInt(0)}, nil
			}
		case "ssa:deferstack":
			return []cval{nil}, nil
		case "append":
			var elems []cval
			if sl, ok := args[0].(cslice); ok {
				elems = append(elems, (*sl.arr)[sl.lo:sl.hi]...)
			} else if args[0] != nil {
				in.abort("append to %T", args[0])
			}
			switch more := args[1].(type) {
			case cslice:
				elems = append(elems, (*more.arr)[more.lo:more.hi]...)
			case nil:
			default:
				in.abort("append of %T", args[1])
			}
			arr := make([]cval, len(elems))
			copy(arr, elems)
			return []cval{cslice{&arr, 0, len(arr)}}, nil
		}
		in.abort("builtin %s", callee.Name())
	case *ssa.Function:
		full := callee.String()
		switch full {
		case "strconv.FormatInt":
			return []cval{bigOf(args[0]).Text(int(bigOf(args[1]).Int64()))}, nil
		case "strconv.FormatUint":
			return []cval{bigOf(args[0]).Text(int(bigOf(args[1]).Int64()))}, nil
		case "strconv.Itoa":
			return []cval{bigOf(args[0]).String()}, nil
		case "strings.Join":
			var parts []string
			if sl, ok := args[0].(cslice); ok {
				guarded := false
				for _, e := range (*sl.arr)[sl.lo:sl.hi] {
					if _, g := e.(cguard); g {
						guarded = true
					}
				}
				if guarded || in.nonZero {
					return []cval{cgjoin{append([]cval{}, (*sl.arr)[sl.lo:sl.hi]...), args[1].(string)}}, nil
				}
				for _, e := range (*sl.arr)[sl.lo:sl.hi] {
					parts = append(parts, e.(string))
				}
			} else if in.nonZero {
				return []cval{cgjoin{nil, args[1].(string)}}, nil
			}
			return []cval{strings.Join(parts, args[1].(string))}, nil
		case "strings.HasPrefix":
			return []cval{strings.HasPrefix(args[0].(string), args[1].(string))}, nil
		case "strings.HasSuffix":
			return []cval{strings.HasSuffix(args[0].(string), args[1].(string))}, nil
		case "fmt.Errorf", "fmt.Sprintf", "github.com/pkg/errors.Errorf":
			// only its being a non-nil error / some string matters (it is about to be thrown or reported)
			if strings.HasSuffix(full, "Sprintf") {
				return []cval{"<formatted>"}, nil
			}
			return []cval{cerr{"<formatted error>"}}, nil
		}
		if callee.Name() == "init" {
			return nil, nil // initialisers of imported packages
		}
		if callee.Blocks == nil || !fnInRepo(callee) {
			in.abort("call of %s", full)
		}
		return in.call(callee, args)
	}
	in.abort("call through %T", cc.Value)
	return nil, nil
}

// tablesImmutable: no function other than the package initialiser writes a package-level
// variable of the given packages (so the tables keep their initial values).
func (e *Engine) tablesImmutable(pkgs []*ssa.Package) []string {
	var problems []string
	var visit func(fn *ssa.Function)
	seen := map[*ssa.Function]bool{}
	rootGlobal := func(v ssa.Value) *ssa.Global {
		for {
			switch x := v.(type) {
			case *ssa.Global:
				return x
			case *ssa.IndexAddr:
				v = x.X
			case *ssa.FieldAddr:
				v = x.X
			case *ssa.Slice:
				v = x.X
			default:
				return nil
			}
		}
	}
	visit = func(fn *ssa.Function) {
		if fn == nil || seen[fn] || fn.Blocks == nil {
			return
		}
		seen[fn] = true
		if fn.Name() == "init" && fn.Synthetic != "" {
			return
		}
		for _, b := range fn.Blocks {
			for _, ins := range b.Instrs {
				switch x := ins.(type) {
				case *ssa.Store:
					if g := rootGlobal(x.Addr); g != nil {
						problems = append(problems, fmt.Sprintf("%s: %s writes package variable %s", posOf(e, x.Pos()), fn.Name(), g.Name()))
					}
				case *ssa.MapUpdate:
					if ld, ok := x.Map.(*ssa.UnOp); ok {
						if g, ok := ld.X.(*ssa.Global); ok {
							problems = append(problems, fmt.Sprintf("%s: %s updates package-level map %s", posOf(e, x.Pos()), fn.Name(), g.Name()))
						}
					}
				}
			}
		}
		for _, a := range fn.AnonFuncs {
			visit(a)
		}
	}
	for _, pkg := range pkgs {
		for _, m := range pkg.Members {
			switch x := m.(type) {
			case *ssa.Function:
				visit(x)
			case *ssa.Type:
				for _, T := range []types.Type{x.Type(), types.NewPointer(x.Type())} {
					ms := e.prog.MethodSets.MethodSet(T)
					for i := 0; i < ms.Len(); i++ {
						if f := e.prog.MethodValue(ms.At(i)); f != nil && f.Pkg == pkg {
							visit(f)
						}
					}
				}
			}
		}
	}
	return problems
}

// enumRoundtrip (C18): for every XFromString of asm/enum and every exported constant c of its
// enumerated type X: XFromString(c.String()) == c, executing both real functions; and no two
// values of a type share a keyword.
func (e *Engine) enumRoundtrip(prop string) ([]staticResult, []string) {
	apkg := e.pkgs[modPath+"/asm/enum"]
	if apkg == nil {
		return nil, []string{"enum-roundtrip: package asm/enum not loaded"}
	}
	var res []staticResult
	in := &interp{e: e, globals: map[*ssa.Global]*ccell{}, inited: map[*ssa.Package]bool{}}
	var names []string
	for n, m := range apkg.Members {
		if _, ok := m.(*ssa.Function); ok && strings.HasSuffix(n, "FromString") {
			names = append(names, n)
		}
	}
	sort.Strings(names)
	tpkgs := map[*ssa.Package]bool{apkg: true}
	run := func(fn *ssa.Function, arg cval, desc bool) (r cval, pv *cpanic, err string) {
		defer func() {
			if x := recover(); x != nil {
				if ab, ok := x.(evalAbort); ok {
					err = ab.msg
					return
				}
				panic(x)
			}
		}()
		in.fuel = 200000
		in.desc = desc
		rs, p := in.call(fn, []cval{arg})
		if p != nil {
			return nil, p, ""
		}
		if len(rs) != 1 {
			return nil, nil, "arity"
		}
		return rs[0], nil, ""
	}
	ntypes := 0
	for _, n := range names {
		from := apkg.Func(n)
		sig := from.Signature
		if sig.Params().Len() != 1 || sig.Results().Len() != 1 {
			continue
		}
		rt, ok := sig.Results().At(0).Type().(*types.Named)
		if !ok || rt.Obj().Pkg() == nil {
			continue
		}
		tp := e.pkgs[rt.Obj().Pkg().Path()]
		if tp == nil {
			return nil, []string{"enum-roundtrip: package " + rt.Obj().Pkg().Path() + " not loaded"}
		}
		tpkgs[tp] = true
		sel := e.prog.MethodSets.MethodSet(rt).Lookup(rt.Obj().Pkg(), "String")
		if sel == nil {
			res = append(res, staticResult{Name: "kw:" + rt.Obj().Name(), Func: from.String(), Kind: "keyword-roundtrip", Status: "fail", Detail: "type has no String method", Backend: "govc-eval"})
			continue
		}
		str := e.prog.MethodValue(sel)
		ntypes++
		sc := rt.Obj().Pkg().Scope()
		cn := sc.Names()
		sort.Strings(cn)
		byKw := map[string]string{}
		byKwName := map[string]string{}
		for _, c := range cn {
			co, ok := sc.Lookup(c).(*types.Const)
			if !ok || !types.Identical(co.Type(), rt) || !co.Exported() {
				continue
			}
			val, _ := new(big.Int).SetString(constant.ToInt(co.Val()).ExactString(), 10)
			r := staticResult{Name: "kw:" + rt.Obj().Name() + "." + c, Func: from.String(), Kind: "keyword-roundtrip", Pos: posOf(e, co.Pos()), Status: "unsat", Backend: "govc-eval"}
			s, pv, err := run(str, val, false)
			switch {
			case err != "":
				r.Status, r.Detail = "error", "cannot execute "+str.String()+": "+err
			case pv != nil:
				r.Status, r.Detail = "fail", fmt.Sprintf("%s.String() panics for %s (=%s): %s", rt.Obj().Name(), c, val, pv.msg)
			default:
				kw, _ := s.(string)
				r.Detail = fmt.Sprintf("%s(%s.String()) == %s, executing both functions: %s (=%s) prints %q", n, c, c, c, val, kw)
				for _, desc := range []bool{false, true} {
					back, pv2, err2 := run(from, kw, desc)
					switch {
					case err2 != "":
						r.Status, r.Detail = "error", "cannot execute "+n+": "+err2
					case pv2 != nil:
						r.Status, r.Detail, r.Witness = "fail", fmt.Sprintf("%s (=%s) prints %q, which %s rejects (panic: %s)", c, val, kw, n, pv2.msg), fmt.Sprintf("%s.%s", rt.Obj().Name(), c)
					default:
						if bigOf(back).Cmp(val) != 0 {
							r.Status, r.Detail, r.Witness = "fail", fmt.Sprintf("%s (=%s) prints %q, which %s maps to %s", c, val, kw, n, bigOf(back)), fmt.Sprintf("%s.%s", rt.Obj().Name(), c)
						}
					}
					if r.Status != "unsat" {
						break
					}
				}
				if prev, ok := byKw[kw]; ok && prev != val.String() && r.Status == "unsat" {
					r.Status, r.Detail = "fail", fmt.Sprintf("keyword %q denotes both %s (=%s) and %s (=%s)", kw, byKwName[kw], prev, c, val)
				}
				byKw[kw] = val.String()
				byKwName[kw] = c
			}
			res = append(res, r)
		}
	}
	if ntypes == 0 {
		return nil, []string{"enum-roundtrip: no XFromString functions found (contract-stale)"}
	}
	// flag sets: complete enumeration of all subsets of the single-bit flags where that is feasible
	res = append(res, e.flagSets(in, tpkgs)...)
	res = append(res, e.flagSetsSymbolic(in, tpkgs)...)
	// the tables are never written after initialisation
	var ps []*ssa.Package
	for p := range tpkgs {
		ps = append(ps, p)
	}
	sort.Slice(ps, func(i, j int) bool { return ps[i].Pkg.Path() < ps[j].Pkg.Path() })
	r := staticResult{Name: "kw-tables-immutable", Func: "asm/enum, ir/enum, ir/types", Kind: "keyword-roundtrip", Status: "unsat", Backend: "govc-static",
		Detail: "no function of the packages holding the keyword tables writes a package-level variable after initialisation"}
	if pr := e.tablesImmutable(ps); len(pr) > 0 {
		if len(pr) > 6 {
			pr = pr[:6]
		}
		r.Status, r.Detail = "fail", strings.Join(pr, "; ")
	}
	res = append(res, r)
	return res, nil
}


// flagSets (C18, "flag sets print as exactly the set of their members"): for the bit-flag types
// whose set of single-bit flags is small enough (DISPFlag: 2^11 subsets, AllocKind: 2^6), every
// subset is printed by the real printer, the text is split at the separator (assumed inverse of
// strings.Join / of the grammar's list syntax), every piece is mapped back by the real
// XFromString, and the OR of the pieces must be the set; the pieces must be exactly the keywords
// of the members, in ascending order. DIFlag (2^30 subsets) stays with the bounded stand-in.
func (e *Engine) flagSets(in *interp, tpkgs map[*ssa.Package]bool) []staticResult {
	type fam struct {
		typ, printerPkg, printer, sep, from string
	}
	fams := []fam{
		{"DISPFlag", modPath + "/ir/metadata", "dispFlagsString", " | ", "DISPFlagFromString"},
		{"AllocKind", modPath + "/ir", "allocKindString", ",", "AllocKindFromString"},
	}
	var res []staticResult
	apkg := e.pkgs[modPath+"/asm/enum"]
	epkg := e.pkgs[modPath+"/ir/enum"]
	for _, f := range fams {
		r := staticResult{Name: "flagset:" + f.typ, Func: f.printerPkg + "." + f.printer, Kind: "flagset-roundtrip", Status: "unsat", Backend: "govc-eval"}
		pp := e.pkgs[f.printerPkg]
		if pp == nil || apkg == nil || epkg == nil {
			r.Status, r.Detail = "error", "package "+f.printerPkg+" not loaded"
			res = append(res, r)
			continue
		}
		tpkgs[pp] = true
		printer, from := pp.Func(f.printer), apkg.Func(f.from)
		tn, _ := epkg.Pkg.Scope().Lookup(f.typ).(*types.TypeName)
		if printer == nil || from == nil || tn == nil {
			r.Status, r.Detail = "error", "contract-stale: "+f.printer+" / "+f.from+" / "+f.typ+" not found"
			res = append(res, r)
			continue
		}
		r.Pos = posOf(e, printer.Pos())
		// single-bit flags and their keywords
		var bits []*big.Int
		kw := map[string]string{}
		seen := map[string]bool{}
		sc := epkg.Pkg.Scope()
		for _, c := range sc.Names() {
			co, ok := sc.Lookup(c).(*types.Const)
			if !ok || !types.Identical(co.Type(), tn.Type()) || !co.Exported() {
				continue
			}
			v, _ := new(big.Int).SetString(constant.ToInt(co.Val()).ExactString(), 10)
			if v.Sign() <= 0 || new(big.Int).And(v, new(big.Int).Sub(v, big.NewInt(1))).Sign() != 0 || seen[v.String()] {
				continue
			}
			seen[v.String()] = true
			bits = append(bits, v)
		}
		sort.Slice(bits, func(i, j int) bool { return bits[i].Cmp(bits[j]) < 0 })
		if len(bits) == 0 || len(bits) > 14 {
			r.Status, r.Detail = "error", fmt.Sprintf("%d single-bit flags: enumeration not feasible", len(bits))
			res = append(res, r)
			continue
		}
		run := func(fn *ssa.Function, arg cval) (out cval, pv *cpanic, err string) {
			defer func() {
				if x := recover(); x != nil {
					if ab, ok := x.(evalAbort); ok {
						err = ab.msg
						return
					}
					panic(x)
				}
			}()
			in.fuel = 200000
			in.desc = false
			rs, p := in.call(fn, []cval{arg})
			if p != nil {
				return nil, p, ""
			}
			return rs[0], nil, ""
		}
		sel := e.prog.MethodSets.MethodSet(tn.Type()).Lookup(epkg.Pkg, "String")
		strFn := e.prog.MethodValue(sel)
		for _, b := range bits {
			s, pv, err := run(strFn, b)
			if err != "" || pv != nil {
				r.Status, r.Detail = "error", fmt.Sprintf("cannot print flag %s: %s %v", b, err, pv)
				break
			}
			kw[b.String()] = s.(string)
		}
		n := 0
		for set := 0; set < 1<<uint(len(bits)) && r.Status == "unsat"; set++ {
			val := new(big.Int)
			var want []string
			for i, b := range bits {
				if set&(1<<uint(i)) != 0 {
					val.Or(val, b)
					want = append(want, kw[b.String()])
				}
			}
			n++
			s, pv, err := run(printer, val)
			if err != "" {
				r.Status, r.Detail = "error", "cannot execute "+f.printer+": "+err
				break
			}
			if pv != nil {
				r.Status, r.Detail, r.Witness = "fail", fmt.Sprintf("%s(%s) panics: %s", f.printer, val, pv.msg), val.String()
				break
			}
			text := s.(string)
			pieces := strings.Split(text, f.sep)
			_ = want
			back := new(big.Int)
			for _, pc := range pieces {
				if f.typ == "AllocKind" && set == 0 && pc == "" {
					continue // the empty set prints as the empty list
				}
				v, pv2, err2 := run(from, strings.TrimSpace(pc))
				if err2 != "" {
					r.Status, r.Detail = "error", "cannot execute "+f.from+": "+err2
					break
				}
				if pv2 != nil {
					r.Status, r.Detail, r.Witness = "fail", fmt.Sprintf("%s(%s) prints %q; %s rejects the piece %q", f.printer, val, text, f.from, pc), val.String()
					break
				}
				back.Or(back, bigOf(v))
			}
			if r.Status == "unsat" && back.Cmp(val) != 0 {
				r.Status, r.Detail, r.Witness = "fail", fmt.Sprintf("%s(%s) prints %q, whose pieces map back to %s", f.printer, val, text, back), val.String()
			}
		}
		if r.Status == "unsat" {
			r.Detail = fmt.Sprintf("all %d subsets of the %d single-bit %s flags: every piece of what %s prints is a keyword, and the pieces map back (through %s) to exactly the set", n, len(bits), f.typ, f.printer, f.from)
		}
		res = append(res, r)
	}
	return res
}


// symBinop: the operations a flag printer performs on a symbolic flag set.
func (in *interp) symBinop(x *ssa.BinOp, a, b cval) (cval, bool) {
	sa, aSym := a.(csym)
	sb, bSym := b.(csym)
	if aSym && bSym {
		in.abort("operator %s on two symbolic values", x.Op)
	}
	if bSym {
		sa, aSym, b = sb, true, a
	}
	if aSym {
		lit, ok := b.(*big.Int)
		if !ok {
			in.abort("operator %s on a symbolic flag set and %T", x.Op, b)
		}
		switch x.Op {
		case token.AND:
			var symIn []int
			for k := range sa.bits {
				if lit.Bit(k) == 1 {
					symIn = append(symIn, k)
				}
			}
			if len(symIn) == 0 {
				return new(big.Int).And(sa.conc, lit), true
			}
			if len(symIn) == 1 && new(big.Int).And(sa.conc, lit).Sign() == 0 && lit.Cmp(new(big.Int).Lsh(big.NewInt(1), uint(symIn[0]))) == 0 {
				return csymbit{symIn[0]}, true
			}
			in.abort("mask %s selects more than one undetermined bit", lit)
		case token.EQL, token.NEQ:
			if lit.Sign() != 0 {
				in.abort("comparison of a symbolic flag set with %s", lit)
			}
			if sa.conc.Sign() != 0 {
				return x.Op == token.NEQ, true
			}
			if !in.nonZero {
				in.abort("comparison of an undetermined flag set with 0")
			}
			return x.Op == token.NEQ, true
		}
		in.abort("operator %s on a symbolic flag set", x.Op)
	}
	if bit, ok := a.(csymbit); ok {
		if lit, ok := b.(*big.Int); ok && lit.Sign() == 0 {
			switch x.Op {
			case token.NEQ:
				return csymcond{bit.k, true}, true
			case token.EQL:
				return csymcond{bit.k, false}, true
			}
		}
		in.abort("operator %s on a single undetermined bit", x.Op)
	}
	if _, ok := b.(csymbit); ok {
		in.abort("operator %s on a single undetermined bit", x.Op)
	}
	return nil, false
}

// flagSetsSymbolic (C18): "flag sets print as exactly the set of their members" for ALL subsets of
// the single-bit flags of DIFlag, DISPFlag and AllocKind. The printer is executed once per value
// of the concretely enumerated field (DIFlag: the two accessibility bits) with every other flag
// an independent unknown bit; the loop over the masks is unrolled (the masks are literals), a
// branch on one unknown bit whose guarded block only appends to the list of keywords yields a
// guarded element, and the list handed to strings.Join must be, element by element, the keyword
// of every member flag in ascending order, each guarded by exactly its own bit. The all-zero set
// is executed concretely. Together with the keyword obligations (every single flag maps back
// to itself) and the distinctness of the bits this decides the property for every subset.
func (e *Engine) flagSetsSymbolic(in *interp, tpkgs map[*ssa.Package]bool) []staticResult {
	type fam struct {
		typ, printerPkg, printer, sep, from string
		field                               int64 // bits enumerated concretely (a multi-bit field printed as one keyword)
	}
	fams := []fam{
		{"DIFlag", modPath + "/ir/metadata", "diFlagsString", " | ", "DIFlagFromString", 3},
		{"DISPFlag", modPath + "/ir/metadata", "dispFlagsString", " | ", "DISPFlagFromString", 0},
		{"AllocKind", modPath + "/ir", "allocKindString", ",", "AllocKindFromString", 0},
	}
	apkg := e.pkgs[modPath+"/asm/enum"]
	var res []staticResult
	epkg := e.pkgs[modPath+"/ir/enum"]
	for _, f := range fams {
		r := staticResult{Name: "flagsets-all:" + f.typ, Func: f.printerPkg + "." + f.printer, Kind: "flagset-members", Status: "unsat", Backend: "govc-eval"}
		pp := e.pkgs[f.printerPkg]
		if pp == nil || epkg == nil {
			r.Status, r.Detail = "error", "package "+f.printerPkg+" not loaded"
			res = append(res, r)
			continue
		}
		tpkgs[pp] = true
		printer := pp.Func(f.printer)
		tn, _ := epkg.Pkg.Scope().Lookup(f.typ).(*types.TypeName)
		var from *ssa.Function
		if apkg != nil {
			from = apkg.Func(f.from)
		}
		if printer == nil || tn == nil || from == nil {
			r.Status, r.Detail = "error", "contract-stale: "+f.printer+" / "+f.typ+" / "+f.from+" not found"
			res = append(res, r)
			continue
		}
		r.Pos = posOf(e, printer.Pos())
		strFn := e.prog.MethodValue(e.prog.MethodSets.MethodSet(tn.Type()).Lookup(epkg.Pkg, "String"))
		// valOf: the value the parser gives a printed piece
		valOf := func(piece string) (*big.Int, string) {
			v, pv, err := func() (out cval, pv *cpanic, err string) {
				defer func() {
					if x := recover(); x != nil {
						if ab, ok := x.(evalAbort); ok {
							err = ab.msg
							return
						}
						panic(x)
					}
				}()
				in.fuel, in.desc = 200000, false
				rs, p := in.call(from, []cval{strings.TrimSpace(piece)})
				if p != nil {
					return nil, p, ""
				}
				return rs[0], nil, ""
			}()
			if err != "" {
				return nil, "cannot execute " + f.from + ": " + err
			}
			if pv != nil {
				return nil, fmt.Sprintf("%s rejects the piece %q", f.from, piece)
			}
			return bigOf(v), ""
		}
		run := func(fn *ssa.Function, arg cval, nonZero bool) (out cval, pv *cpanic, err string) {
			defer func() {
				if x := recover(); x != nil {
					in.logging, in.wlog = false, nil
					if ab, ok := x.(evalAbort); ok {
						err = ab.msg
						return
					}
					panic(x)
				}
			}()
			in.fuel, in.desc, in.nonZero = 200000, false, nonZero
			rs, p := in.call(fn, []cval{arg})
			in.nonZero = false
			if p != nil {
				return nil, p, ""
			}
			return rs[0], nil, ""
		}
		// the single-bit flags outside the concretely enumerated field
		bits := map[int]bool{}
		var ks []int
		sc := epkg.Pkg.Scope()
		for _, c := range sc.Names() {
			co, ok := sc.Lookup(c).(*types.Const)
			if !ok || !types.Identical(co.Type(), tn.Type()) || !co.Exported() {
				continue
			}
			v, _ := new(big.Int).SetString(constant.ToInt(co.Val()).ExactString(), 10)
			if v.Sign() <= 0 || new(big.Int).And(v, new(big.Int).Sub(v, big.NewInt(1))).Sign() != 0 {
				continue
			}
			k := v.BitLen() - 1
			if f.field&(1<<uint(k)) != 0 || bits[k] {
				continue
			}
			bits[k] = true
			ks = append(ks, k)
		}
		sort.Ints(ks)
		kwOf := func(v *big.Int) (string, string) {
			s, pv, err := run(strFn, v, false)
			if err != "" || pv != nil {
				return "", fmt.Sprintf("cannot print %s: %s %v", v, err, pv)
			}
			return s.(string), ""
		}
		nruns := 0
		for fv := int64(0); fv <= f.field && r.Status == "unsat"; fv++ {
			if fv&^f.field != 0 {
				continue
			}
			out, pv, err := run(printer, csym{conc: big.NewInt(fv), bits: bits}, true)
			nruns++
			if err != "" {
				// the printer is not of the shape the symbolic run understands (this is not a refutation): fall back
				// to concrete runs over all sets of at most three flags; a mismatch is a violation with its witness,
				// agreement leaves the obligation undecided
				why := fmt.Sprintf("%s with field value %d and every other flag undetermined: %s", f.printer, fv, err)
				n := 0
				var bad string
				var try func(start int, chosen []int)
				try = func(start int, chosen []int) {
					if bad != "" {
						return
					}
					for fv2 := int64(0); fv2 <= f.field; fv2++ {
						if fv2&^f.field != 0 {
							continue
						}
						val := big.NewInt(fv2)
						var want []string
						if fv2 != 0 {
							w, _ := kwOf(big.NewInt(fv2))
							want = append(want, w)
						}
						for _, k := range chosen {
							b := new(big.Int).Lsh(big.NewInt(1), uint(k))
							val.Or(val, b)
							w, _ := kwOf(b)
							want = append(want, w)
						}
						if val.Sign() == 0 {
							continue
						}
						n++
						out, pv2, err2 := run(printer, val, false)
						if err2 != "" || pv2 != nil {
							bad = fmt.Sprintf("%s(%s): %s %v", f.printer, val, err2, pv2)
							return
						}
						got, _ := out.(string)
						back := new(big.Int)
						for _, pc := range strings.Split(got, f.sep) {
							v, e1 := valOf(pc)
							if e1 != "" {
								bad = fmt.Sprintf("%s(%s) prints %q: %s", f.printer, val, got, e1)
								r.Witness = val.String()
								return
							}
							back.Or(back, v)
						}
						if back.Cmp(val) != 0 {
							bad = fmt.Sprintf("%s(%s) prints %q, whose pieces map back to %s (the members are %q)", f.printer, val, got, back, strings.Join(want, f.sep))
							r.Witness = val.String()
							return
						}
					}
					if len(chosen) == 3 {
						return
					}
					for i := start; i < len(ks); i++ {
						try(i+1, append(append([]int{}, chosen...), ks[i]))
					}
				}
				try(0, nil)
				if bad != "" {
					r.Status, r.Detail = "fail", bad
				} else {
					r.Status, r.Detail = "error", fmt.Sprintf("undecided for all subsets (%s); %d sets of at most three flags print as their members", why, n)
				}
				break
			}
			if pv != nil {
				r.Status, r.Detail = "fail", fmt.Sprintf("%s panics (field value %d): %s", f.printer, fv, pv.msg)
				break
			}
			j, ok := out.(cgjoin)
			if !ok || j.sep != f.sep {
				r.Status, r.Detail = "fail", fmt.Sprintf("%s does not return strings.Join(keywords, %q) (field value %d): %v", f.printer, f.sep, fv, out)
				break
			}
			// every unconditional piece denotes members of the concrete part, together exactly the concrete part;
			// every piece guarded by bit k denotes exactly the flag 2^k; every undetermined bit has its piece
			unc := new(big.Int)
			covered := map[int]bool{}
			for d, el := range j.elems {
				switch x := el.(type) {
				case string:
					v, e1 := valOf(x)
					if e1 != "" {
						r.Status, r.Detail = "fail", fmt.Sprintf("%s (field value %d): piece %d (%q, printed unconditionally): %s", f.printer, fv, d, x, e1)
					} else {
						unc.Or(unc, v)
					}
				case cguard:
					w, _ := x.v.(string)
					v, e1 := valOf(w)
					switch {
					case e1 != "":
						r.Status, r.Detail = "fail", fmt.Sprintf("%s (field value %d): piece %d (%s): %s", f.printer, fv, d, descElem(el), e1)
					case !x.c.pos || v.Cmp(new(big.Int).Lsh(big.NewInt(1), uint(x.c.k))) != 0:
						r.Status, r.Detail = "fail", fmt.Sprintf("%s (field value %d): piece %d is %s, which the parser maps to %s, not to the flag %d", f.printer, fv, d, descElem(el), v, int64(1)<<uint(x.c.k))
					default:
						covered[x.c.k] = true
					}
				default:
					r.Status, r.Detail = "fail", fmt.Sprintf("%s (field value %d): piece %d is %v", f.printer, fv, d, el)
				}
				if r.Status != "unsat" {
					break
				}
			}
			if r.Status == "unsat" && unc.Cmp(big.NewInt(fv)) != 0 {
				r.Status, r.Detail = "fail", fmt.Sprintf("%s (field value %d): the unconditionally printed pieces map back to %s", f.printer, fv, unc)
			}
			for _, k := range ks {
				if r.Status == "unsat" && !covered[k] {
					r.Status, r.Detail, r.Witness = "fail", fmt.Sprintf("%s (field value %d): the flag %d (bit %d) is never printed", f.printer, fv, int64(1)<<uint(k), k), fmt.Sprint(int64(1)<<uint(k)|fv)
				}
			}
		}
		// the empty set, concretely
		if r.Status == "unsat" {
			out, pv, err := run(printer, big.NewInt(0), false)
			if err != "" || pv != nil {
				r.Status, r.Detail = "fail", fmt.Sprintf("%s(0): %s %v", f.printer, err, pv)
			} else if s, ok := out.(string); ok {
				z, _ := kwOf(big.NewInt(0))
				if s != "" && s != z {
					r.Status, r.Detail = "fail", fmt.Sprintf("%s(0) prints %q", f.printer, s)
				}
			} else if j, ok := out.(cgjoin); !ok || len(j.elems) != 0 {
				r.Status, r.Detail = "fail", fmt.Sprintf("%s(0) prints %v", f.printer, out)
			}
		}
		if r.Status == "unsat" {
			r.Detail = fmt.Sprintf("for every subset of the %d single-bit %s flags (and every value of the concretely enumerated field; %d symbolic runs + the empty set): the pieces %s hands to strings.Join are keywords that the parser maps back to exactly the members of the set (each flag printed iff it is a member)", len(ks), f.typ, nruns, f.printer)
		}
		res = append(res, r)
	}
	return res
}

func descElem(v cval) string {
	switch x := v.(type) {
	case cguard:
		if x.c.pos {
			return fmt.Sprintf("%q when bit %d is set", x.v, x.c.k)
		}
		return fmt.Sprintf("%q when bit %d is clear", x.v, x.c.k)
	case string:
		return fmt.Sprintf("%q unconditionally", x)
	}
	return fmt.Sprint(v)
}
