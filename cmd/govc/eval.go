package main

// Finite-domain units (property C18): where the domain of a property is finite
// and given by the declarations (every declared constant of an enumerated
// type), the postcondition is decided by executing the SSA of the real
// functions on every value of the domain: symbolic execution in which every
// value is a literal, every branch condition folds to a constant and every
// loop is unrolled to its (constant) trip count with the unwinding checked
// (fuel) -- complete for the domain, no solver involved. Package-level tables
// get the values the package initialiser stores into them; a sweep checks that
// nothing else ever writes them. A range over a map is executed in ascending
// and in descending key order and both results must agree.

import (
	"fmt"
	"go/constant"
	"go/token"
	"go/types"
	"math/big"
	"sort"
	"strings"

	"golang.org/x/tools/go/ssa"
)

type cval interface{}

type ccell struct{ v cval }                // a memory cell (local, global, map-less)
type celem struct {                        // address of an array / slice element
	arr *[]cval
	i   int
}
type cslice struct {
	arr    *[]cval
	lo, hi int
}
type cmap struct {
	m    map[string]cval
	keys map[string]cval
}
type ctuple []cval
type cerr struct{ msg string }
type ciface struct {
	t types.Type
	v cval
}
type citer struct {
	m    *cmap
	keys []string
	pos  int
}
type cpanic struct{ msg string }

type interp struct {
	e       *Engine
	globals map[*ssa.Global]*ccell
	inited  map[*ssa.Package]bool
	fuel    int
	desc    bool // map iteration order: descending keys
}

type evalAbort struct{ msg string }

func (in *interp) abort(f string, a ...interface{}) { panic(evalAbort{fmt.Sprintf(f, a...)}) }

func bigOf(v cval) *big.Int {
	if b, ok := v.(*big.Int); ok {
		return b
	}
	panic(evalAbort{fmt.Sprintf("integer expected, got %T", v)})
}

func wrapInt(v *big.Int, t types.Type) *big.Int {
	b, ok := t.Underlying().(*types.Basic)
	if !ok || b.Info()&types.IsInteger == 0 {
		return v
	}
	bits := 64
	switch b.Kind() {
	case types.Int8, types.Uint8:
		bits = 8
	case types.Int16, types.Uint16:
		bits = 16
	case types.Int32, types.Uint32:
		bits = 32
	}
	mod := new(big.Int).Lsh(big.NewInt(1), uint(bits))
	r := new(big.Int).Mod(v, mod)
	if b.Info()&types.IsUnsigned == 0 {
		half := new(big.Int).Rsh(mod, 1)
		if r.Cmp(half) >= 0 {
			r.Sub(r, mod)
		}
	}
	return r
}

func (in *interp) zero(t types.Type) cval {
	switch u := t.Underlying().(type) {
	case *types.Basic:
		switch {
		case u.Info()&types.IsBoolean != 0:
			return false
		case u.Info()&types.IsInteger != 0:
			return big.NewInt(0)
		case u.Info()&types.IsString != 0:
			return ""
		}
	case *types.Array:
		a := make([]cval, u.Len())
		for i := range a {
			a[i] = in.zero(u.Elem())
		}
		return &a
	case *types.Pointer, *types.Map, *types.Slice, *types.Interface, *types.Signature:
		return nil
	case *types.Struct:
		a := make([]cval, u.NumFields())
		for i := range a {
			a[i] = in.zero(u.Field(i).Type())
		}
		return &a
	}
	in.abort("zero value of %s", t)
	return nil
}

func keyString(v cval) string {
	switch x := v.(type) {
	case *big.Int:
		// sortable decimal: sign and zero padding
		s := x.String()
		if x.Sign() < 0 {
			return "-" + fmt.Sprintf("%040s", s[1:])
		}
		return "+" + fmt.Sprintf("%040s", s)
	case string:
		return "s" + x
	case bool:
		return fmt.Sprint(x)
	}
	panic(evalAbort{fmt.Sprintf("map key of kind %T", v)})
}

func (in *interp) global(g *ssa.Global) *ccell {
	if g.Pkg != nil && !in.inited[g.Pkg] {
		in.initPkg(g.Pkg)
	}
	c := in.globals[g]
	if c == nil {
		c = &ccell{in.zero(g.Type().(*types.Pointer).Elem())}
		in.globals[g] = c
	}
	return c
}

// initPkg runs the package initialiser (stores of the table literals); initialisers
// of imported packages are not run (their variables are not read by the units).
func (in *interp) initPkg(p *ssa.Package) {
	in.inited[p] = true
	for _, m := range p.Members {
		if g, ok := m.(*ssa.Global); ok {
			if _, ok := in.globals[g]; !ok {
				in.globals[g] = &ccell{in.zero(g.Type().(*types.Pointer).Elem())}
			}
		}
	}
	if f := p.Func("init"); f != nil && f.Blocks != nil {
		saved := in.fuel
		in.fuel = 5000000
		in.call(f, nil)
		in.fuel = saved
	}
}

type frame struct {
	vals map[ssa.Value]cval
}

func (in *interp) get(fr *frame, v ssa.Value) cval {
	switch x := v.(type) {
	case *ssa.Const:
		if x.Value == nil {
			return in.zero(x.Type())
		}
		switch x.Value.Kind() {
		case constant.Bool:
			return constant.BoolVal(x.Value)
		case constant.String:
			return constant.StringVal(x.Value)
		case constant.Int:
			b, _ := new(big.Int).SetString(x.Value.ExactString(), 10)
			return b
		}
		in.abort("constant %s", x)
	case *ssa.Global:
		return in.global(x)
	case *ssa.Function:
		return x
	}
	r, ok := fr.vals[v]
	if !ok {
		in.abort("no value for %s", v.Name())
	}
	return r
}

func (in *interp) load(addr cval) cval {
	switch a := addr.(type) {
	case *ccell:
		return a.v
	case celem:
		return (*a.arr)[a.i]
	}
	in.abort("load through %T", addr)
	return nil
}

func (in *interp) store(addr, v cval) {
	switch a := addr.(type) {
	case *ccell:
		a.v = v
	case celem:
		(*a.arr)[a.i] = v
	default:
		in.abort("store through %T", addr)
	}
}

// call executes fn on concrete arguments. It returns the results, or a panic value.
func (in *interp) call(fn *ssa.Function, args []cval) (res []cval, pv *cpanic) {
	if fn.Blocks == nil {
		in.abort("call of %s: no body", fn)
	}
	fr := &frame{vals: map[ssa.Value]cval{}}
	for i, p := range fn.Params {
		fr.vals[p] = args[i]
	}
	b := fn.Blocks[0]
	var prev *ssa.BasicBlock
	for {
		var next *ssa.BasicBlock
		for _, ins := range b.Instrs {
			in.fuel--
			if in.fuel <= 0 {
				in.abort("unwinding bound exceeded in %s", fn)
			}
			switch x := ins.(type) {
			case *ssa.DebugRef, *ssa.RunDefers:
			case *ssa.Defer:
				in.abort("defer in %s", fn)
			case *ssa.Phi:
				for k, p := range b.Preds {
					if p == prev {
						fr.vals[x] = in.get(fr, x.Edges[k])
					}
				}
			case *ssa.Alloc:
				et := x.Type().(*types.Pointer).Elem()
				fr.vals[x] = &ccell{in.zero(et)}
			case *ssa.Store:
				in.store(in.get(fr, x.Addr), in.copyVal(in.get(fr, x.Val)))
			case *ssa.UnOp:
				v := in.get(fr, x.X)
				switch x.Op {
				case token.MUL:
					fr.vals[x] = in.copyVal(in.load(v))
				case token.NOT:
					fr.vals[x] = !v.(bool)
				case token.SUB:
					fr.vals[x] = wrapInt(new(big.Int).Neg(bigOf(v)), x.Type())
				case token.XOR:
					fr.vals[x] = wrapInt(new(big.Int).Not(bigOf(v)), x.Type())
				default:
					in.abort("unary %s", x.Op)
				}
			case *ssa.BinOp:
				r, p := in.binop(x, in.get(fr, x.X), in.get(fr, x.Y))
				if p != nil {
					return nil, p
				}
				fr.vals[x] = r
			case *ssa.Convert:
				v := in.get(fr, x.X)
				if bi, ok := v.(*big.Int); ok {
					if bt, ok := x.Type().Underlying().(*types.Basic); ok && bt.Info()&types.IsInteger != 0 {
						fr.vals[x] = wrapInt(bi, x.Type())
						break
					}
				}
				if s, ok := v.(string); ok {
					if _, ok := x.Type().Underlying().(*types.Basic); ok {
						fr.vals[x] = s
						break
					}
				}
				in.abort("conversion %s -> %s", x.X.Type(), x.Type())
			case *ssa.ChangeType:
				fr.vals[x] = in.get(fr, x.X)
			case *ssa.MakeInterface:
				fr.vals[x] = ciface{x.X.Type(), in.get(fr, x.X)}
			case *ssa.ChangeInterface:
				fr.vals[x] = in.get(fr, x.X)
			case *ssa.Index:
				base, idx := in.get(fr, x.X), bigOf(in.get(fr, x.Index))
				switch bv := base.(type) {
				case string:
					if !idx.IsInt64() || idx.Int64() < 0 || idx.Int64() >= int64(len(bv)) {
						return nil, &cpanic{"index out of range"}
					}
					fr.vals[x] = big.NewInt(int64(bv[idx.Int64()]))
				case *[]cval:
					if !idx.IsInt64() || idx.Int64() < 0 || idx.Int64() >= int64(len(*bv)) {
						return nil, &cpanic{"index out of range"}
					}
					fr.vals[x] = (*bv)[idx.Int64()]
				default:
					in.abort("index of %T", base)
				}
			case *ssa.IndexAddr:
				base, idx := in.get(fr, x.X), bigOf(in.get(fr, x.Index))
				var arr *[]cval
				lo, n := 0, 0
				switch bv := base.(type) {
				case *ccell: // pointer to array
					arr = bv.v.(*[]cval)
					n = len(*arr)
				case cslice:
					arr, lo, n = bv.arr, bv.lo, bv.hi-bv.lo
				default:
					in.abort("IndexAddr on %T", base)
				}
				if !idx.IsInt64() || idx.Int64() < 0 || idx.Int64() >= int64(n) {
					return nil, &cpanic{"index out of range"}
				}
				fr.vals[x] = celem{arr, lo + int(idx.Int64())}
			case *ssa.Slice:
				base := in.get(fr, x.X)
				bound := func(v ssa.Value, def int) int {
					if v == nil {
						return def
					}
					b := bigOf(in.get(fr, v))
					if !b.IsInt64() {
						return -1
					}
					return int(b.Int64())
				}
				switch bv := base.(type) {
				case string:
					lo, hi := bound(x.Low, 0), bound(x.High, len(bv))
					if lo < 0 || hi < lo || hi > len(bv) {
						return nil, &cpanic{"slice bounds out of range"}
					}
					fr.vals[x] = bv[lo:hi]
				case *ccell:
					arr := bv.v.(*[]cval)
					lo, hi := bound(x.Low, 0), bound(x.High, len(*arr))
					if lo < 0 || hi < lo || hi > len(*arr) {
						return nil, &cpanic{"slice bounds out of range"}
					}
					fr.vals[x] = cslice{arr, lo, hi}
				case cslice:
					lo, hi := bound(x.Low, 0), bound(x.High, bv.hi-bv.lo)
					if lo < 0 || hi < lo || bv.lo+hi > len(*bv.arr) {
						return nil, &cpanic{"slice bounds out of range"}
					}
					fr.vals[x] = cslice{bv.arr, bv.lo + lo, bv.lo + hi}
				default:
					in.abort("slice of %T", base)
				}
			case *ssa.FieldAddr:
				base := in.get(fr, x.X)
				switch bv := base.(type) {
				case *ccell:
					arr, ok := bv.v.(*[]cval)
					if !ok {
						in.abort("FieldAddr on a cell holding %T", bv.v)
					}
					fr.vals[x] = celem{arr, x.Field}
				case celem:
					arr, ok := (*bv.arr)[bv.i].(*[]cval)
					if !ok {
						in.abort("FieldAddr on an element holding %T", (*bv.arr)[bv.i])
					}
					fr.vals[x] = celem{arr, x.Field}
				case nil:
					return nil, &cpanic{"nil pointer dereference"}
				default:
					in.abort("FieldAddr on %T", base)
				}
			case *ssa.Field:
				arr, ok := in.get(fr, x.X).(*[]cval)
				if !ok {
					in.abort("Field of %T", in.get(fr, x.X))
				}
				fr.vals[x] = (*arr)[x.Field]
			case *ssa.MakeMap:
				fr.vals[x] = &cmap{m: map[string]cval{}, keys: map[string]cval{}}
			case *ssa.MapUpdate:
				m := in.get(fr, x.Map).(*cmap)
				k := in.get(fr, x.Key)
				m.m[keyString(k)] = in.get(fr, x.Value)
				m.keys[keyString(k)] = k
			case *ssa.Lookup:
				base := in.get(fr, x.X)
				switch bv := base.(type) {
				case *cmap:
					v, ok := bv.m[keyString(in.get(fr, x.Index))]
					if !ok {
						v = in.zero(x.X.Type().Underlying().(*types.Map).Elem())
					}
					if x.CommaOk {
						fr.vals[x] = ctuple{v, ok}
					} else {
						fr.vals[x] = v
					}
				case nil:
					v := in.zero(x.X.Type().Underlying().(*types.Map).Elem())
					if x.CommaOk {
						fr.vals[x] = ctuple{v, false}
					} else {
						fr.vals[x] = v
					}
				default:
					in.abort("lookup in %T", base)
				}
			case *ssa.Range:
				m, ok := in.get(fr, x.X).(*cmap)
				if !ok {
					in.abort("range over %s", x.X.Type())
				}
				var ks []string
				for k := range m.m {
					ks = append(ks, k)
				}
				sort.Strings(ks)
				if in.desc {
					for i, j := 0, len(ks)-1; i < j; i, j = i+1, j-1 {
						ks[i], ks[j] = ks[j], ks[i]
					}
				}
				fr.vals[x] = &citer{m: m, keys: ks}
			case *ssa.Next:
				it := in.get(fr, x.Iter).(*citer)
				if it.pos >= len(it.keys) {
					fr.vals[x] = ctuple{false, nil, nil}
				} else {
					k := it.keys[it.pos]
					it.pos++
					fr.vals[x] = ctuple{true, it.m.keys[k], it.m.m[k]}
				}
			case *ssa.Extract:
				fr.vals[x] = in.get(fr, x.Tuple).(ctuple)[x.Index]
			case *ssa.Call:
				r, p := in.doCall(fr, x.Common())
				if p != nil {
					return nil, p
				}
				switch len(r) {
				case 0:
				case 1:
					fr.vals[x] = r[0]
				default:
					fr.vals[x] = ctuple(r)
				}
			case *ssa.If:
				c, ok := in.get(fr, x.Cond).(bool)
				if !ok {
					in.abort("branch condition is not a literal")
				}
				if c {
					next = b.Succs[0]
				} else {
					next = b.Succs[1]
				}
			case *ssa.Jump:
				next = b.Succs[0]
			case *ssa.Return:
				var rs []cval
				for _, r := range x.Results {
					rs = append(rs, in.get(fr, r))
				}
				return rs, nil
			case *ssa.Panic:
				return nil, &cpanic{fmt.Sprint(in.get(fr, x.X))}
			default:
				in.abort("unsupported instruction %T in %s", ins, fn)
			}
		}
		if next == nil {
			in.abort("block without terminator in %s", fn)
		}
		prev, b = b, next
	}
}

// copyVal: arrays are values (copied on load/store); everything else is immutable or a reference.
func (in *interp) copyVal(v cval) cval {
	if a, ok := v.(*[]cval); ok {
		c := make([]cval, len(*a))
		copy(c, *a)
		return &c
	}
	return v
}

func (in *interp) binop(x *ssa.BinOp, a, b cval) (cval, *cpanic) {
	switch av := a.(type) {
	case string:
		bv := b.(string)
		switch x.Op {
		case token.ADD:
			return av + bv, nil
		case token.EQL:
			return av == bv, nil
		case token.NEQ:
			return av != bv, nil
		case token.LSS:
			return av < bv, nil
		case token.LEQ:
			return av <= bv, nil
		case token.GTR:
			return av > bv, nil
		case token.GEQ:
			return av >= bv, nil
		}
	case bool:
		bv := b.(bool)
		switch x.Op {
		case token.EQL:
			return av == bv, nil
		case token.NEQ:
			return av != bv, nil
		}
	case *big.Int:
		bv := bigOf(b)
		c := av.Cmp(bv)
		switch x.Op {
		case token.EQL:
			return c == 0, nil
		case token.NEQ:
			return c != 0, nil
		case token.LSS:
			return c < 0, nil
		case token.LEQ:
			return c <= 0, nil
		case token.GTR:
			return c > 0, nil
		case token.GEQ:
			return c >= 0, nil
		}
		r := new(big.Int)
		switch x.Op {
		case token.ADD:
			r.Add(av, bv)
		case token.SUB:
			r.Sub(av, bv)
		case token.MUL:
			r.Mul(av, bv)
		case token.QUO:
			if bv.Sign() == 0 {
				return nil, &cpanic{"division by zero"}
			}
			r.Quo(av, bv)
		case token.REM:
			if bv.Sign() == 0 {
				return nil, &cpanic{"division by zero"}
			}
			r.Rem(av, bv)
		case token.AND:
			r.And(av, bv)
		case token.OR:
			r.Or(av, bv)
		case token.XOR:
			r.Xor(av, bv)
		case token.AND_NOT:
			r.AndNot(av, bv)
		case token.SHL:
			if bv.Sign() < 0 {
				return nil, &cpanic{"negative shift"}
			}
			if !bv.IsInt64() || bv.Int64() > 128 {
				r.SetInt64(0)
			} else {
				r.Lsh(av, uint(bv.Int64()))
			}
		case token.SHR:
			if bv.Sign() < 0 {
				return nil, &cpanic{"negative shift"}
			}
			if !bv.IsInt64() || bv.Int64() > 128 {
				if av.Sign() < 0 {
					r.SetInt64(-1)
				}
			} else {
				r.Rsh(av, uint(bv.Int64()))
			}
		default:
			in.abort("integer operator %s", x.Op)
		}
		return wrapInt(r, x.Type()), nil
	case nil:
		switch x.Op {
		case token.EQL:
			return b == nil, nil
		case token.NEQ:
			return b != nil, nil
		}
	case cerr:
		switch x.Op {
		case token.EQL:
			return b != nil && false, nil
		case token.NEQ:
			return true, nil
		}
	}
	in.abort("operator %s on %T", x.Op, a)
	return nil, nil
}

func (in *interp) doCall(fr *frame, cc *ssa.CallCommon) ([]cval, *cpanic) {
	if cc.IsInvoke() {
		in.abort("dynamic call %s", cc.Method.Name())
	}
	var args []cval
	for _, a := range cc.Args {
		args = append(args, in.get(fr, a))
	}
	switch callee := cc.Value.(type) {
	case *ssa.Builtin:
		switch callee.Name() {
		case "len":
			switch v := args[0].(type) {
			case string:
				return []cval{big.NewInt(int64(len(v)))}, nil
			case cslice:
				return []cval{big.NewInt(int64(v.hi - v.lo))}, nil
			case *cmap:
				return []cval{big.NewInt(int64(len(v.m)))}, nil
			case nil:
				return []cval{big.NewInt(0)}, nil
			}
		case "ssa:deferstack":
			return []cval{nil}, nil
		}
		in.abort("builtin %s", callee.Name())
	case *ssa.Function:
		full := callee.String()
		switch full {
		case "strconv.FormatInt":
			return []cval{bigOf(args[0]).Text(int(bigOf(args[1]).Int64()))}, nil
		case "strconv.FormatUint":
			return []cval{bigOf(args[0]).Text(int(bigOf(args[1]).Int64()))}, nil
		case "strconv.Itoa":
			return []cval{bigOf(args[0]).String()}, nil
		case "fmt.Errorf", "fmt.Sprintf", "github.com/pkg/errors.Errorf":
			// only its being a non-nil error / some string matters (it is about to be thrown or reported)
			if strings.HasSuffix(full, "Sprintf") {
				return []cval{"<formatted>"}, nil
			}
			return []cval{cerr{"<formatted error>"}}, nil
		}
		if callee.Name() == "init" {
			return nil, nil // initialisers of imported packages
		}
		if callee.Blocks == nil || !fnInRepo(callee) {
			in.abort("call of %s", full)
		}
		return in.call(callee, args)
	}
	in.abort("call through %T", cc.Value)
	return nil, nil
}

// tablesImmutable: no function other than the package initialiser writes a package-level
// variable of the given packages (so the tables keep their initial values).
func (e *Engine) tablesImmutable(pkgs []*ssa.Package) []string {
	var problems []string
	var visit func(fn *ssa.Function)
	seen := map[*ssa.Function]bool{}
	rootGlobal := func(v ssa.Value) *ssa.Global {
		for {
			switch x := v.(type) {
			case *ssa.Global:
				return x
			case *ssa.IndexAddr:
				v = x.X
			case *ssa.FieldAddr:
				v = x.X
			case *ssa.Slice:
				v = x.X
			default:
				return nil
			}
		}
	}
	visit = func(fn *ssa.Function) {
		if fn == nil || seen[fn] || fn.Blocks == nil {
			return
		}
		seen[fn] = true
		if fn.Name() == "init" && fn.Synthetic != "" {
			return
		}
		for _, b := range fn.Blocks {
			for _, ins := range b.Instrs {
				switch x := ins.(type) {
				case *ssa.Store:
					if g := rootGlobal(x.Addr); g != nil {
						problems = append(problems, fmt.Sprintf("%s: %s writes package variable %s", posOf(e, x.Pos()), fn.Name(), g.Name()))
					}
				case *ssa.MapUpdate:
					if ld, ok := x.Map.(*ssa.UnOp); ok {
						if g, ok := ld.X.(*ssa.Global); ok {
							problems = append(problems, fmt.Sprintf("%s: %s updates package-level map %s", posOf(e, x.Pos()), fn.Name(), g.Name()))
						}
					}
				}
			}
		}
		for _, a := range fn.AnonFuncs {
			visit(a)
		}
	}
	for _, pkg := range pkgs {
		for _, m := range pkg.Members {
			switch x := m.(type) {
			case *ssa.Function:
				visit(x)
			case *ssa.Type:
				for _, T := range []types.Type{x.Type(), types.NewPointer(x.Type())} {
					ms := e.prog.MethodSets.MethodSet(T)
					for i := 0; i < ms.Len(); i++ {
						if f := e.prog.MethodValue(ms.At(i)); f != nil && f.Pkg == pkg {
							visit(f)
						}
					}
				}
			}
		}
	}
	return problems
}

// enumRoundtrip (C18): for every XFromString of asm/enum and every exported constant c of its
// enumerated type X: XFromString(c.String()) == c, executing both real functions; and no two
// values of a type share a keyword.
func (e *Engine) enumRoundtrip(prop string) ([]staticResult, []string) {
	apkg := e.pkgs[modPath+"/asm/enum"]
	if apkg == nil {
		return nil, []string{"enum-roundtrip: package asm/enum not loaded"}
	}
	var res []staticResult
	in := &interp{e: e, globals: map[*ssa.Global]*ccell{}, inited: map[*ssa.Package]bool{}}
	var names []string
	for n, m := range apkg.Members {
		if _, ok := m.(*ssa.Function); ok && strings.HasSuffix(n, "FromString") {
			names = append(names, n)
		}
	}
	sort.Strings(names)
	tpkgs := map[*ssa.Package]bool{apkg: true}
	run := func(fn *ssa.Function, arg cval, desc bool) (r cval, pv *cpanic, err string) {
		defer func() {
			if x := recover(); x != nil {
				if ab, ok := x.(evalAbort); ok {
					err = ab.msg
					return
				}
				panic(x)
			}
		}()
		in.fuel = 200000
		in.desc = desc
		rs, p := in.call(fn, []cval{arg})
		if p != nil {
			return nil, p, ""
		}
		if len(rs) != 1 {
			return nil, nil, "arity"
		}
		return rs[0], nil, ""
	}
	ntypes := 0
	for _, n := range names {
		from := apkg.Func(n)
		sig := from.Signature
		if sig.Params().Len() != 1 || sig.Results().Len() != 1 {
			continue
		}
		rt, ok := sig.Results().At(0).Type().(*types.Named)
		if !ok || rt.Obj().Pkg() == nil {
			continue
		}
		tp := e.pkgs[rt.Obj().Pkg().Path()]
		if tp == nil {
			return nil, []string{"enum-roundtrip: package " + rt.Obj().Pkg().Path() + " not loaded"}
		}
		tpkgs[tp] = true
		sel := e.prog.MethodSets.MethodSet(rt).Lookup(rt.Obj().Pkg(), "String")
		if sel == nil {
			res = append(res, staticResult{Name: "kw:" + rt.Obj().Name(), Func: from.String(), Kind: "keyword-roundtrip", Status: "fail", Detail: "type has no String method", Backend: "govc-eval"})
			continue
		}
		str := e.prog.MethodValue(sel)
		ntypes++
		sc := rt.Obj().Pkg().Scope()
		cn := sc.Names()
		sort.Strings(cn)
		byKw := map[string]string{}
		byKwName := map[string]string{}
		for _, c := range cn {
			co, ok := sc.Lookup(c).(*types.Const)
			if !ok || !types.Identical(co.Type(), rt) || !co.Exported() {
				continue
			}
			val, _ := new(big.Int).SetString(constant.ToInt(co.Val()).ExactString(), 10)
			r := staticResult{Name: "kw:" + rt.Obj().Name() + "." + c, Func: from.String(), Kind: "keyword-roundtrip", Pos: posOf(e, co.Pos()), Status: "unsat", Backend: "govc-eval"}
			s, pv, err := run(str, val, false)
			switch {
			case err != "":
				r.Status, r.Detail = "error", "cannot execute "+str.String()+": "+err
			case pv != nil:
				r.Status, r.Detail = "fail", fmt.Sprintf("%s.String() panics for %s (=%s): %s", rt.Obj().Name(), c, val, pv.msg)
			default:
				kw, _ := s.(string)
				r.Detail = fmt.Sprintf("%s(%s.String()) == %s, executing both functions: %s (=%s) prints %q", n, c, c, c, val, kw)
				for _, desc := range []bool{false, true} {
					back, pv2, err2 := run(from, kw, desc)
					switch {
					case err2 != "":
						r.Status, r.Detail = "error", "cannot execute "+n+": "+err2
					case pv2 != nil:
						r.Status, r.Detail, r.Witness = "fail", fmt.Sprintf("%s (=%s) prints %q, which %s rejects (panic: %s)", c, val, kw, n, pv2.msg), fmt.Sprintf("%s.%s", rt.Obj().Name(), c)
					default:
						if bigOf(back).Cmp(val) != 0 {
							r.Status, r.Detail, r.Witness = "fail", fmt.Sprintf("%s (=%s) prints %q, which %s maps to %s", c, val, kw, n, bigOf(back)), fmt.Sprintf("%s.%s", rt.Obj().Name(), c)
						}
					}
					if r.Status != "unsat" {
						break
					}
				}
				if prev, ok := byKw[kw]; ok && prev != val.String() && r.Status == "unsat" {
					r.Status, r.Detail = "fail", fmt.Sprintf("keyword %q denotes both %s (=%s) and %s (=%s)", kw, byKwName[kw], prev, c, val)
				}
				byKw[kw] = val.String()
				byKwName[kw] = c
			}
			res = append(res, r)
		}
	}
	if ntypes == 0 {
		return nil, []string{"enum-roundtrip: no XFromString functions found (contract-stale)"}
	}
	// the tables are never written after initialisation
	var ps []*ssa.Package
	for p := range tpkgs {
		ps = append(ps, p)
	}
	sort.Slice(ps, func(i, j int) bool { return ps[i].Pkg.Path() < ps[j].Pkg.Path() })
	r := staticResult{Name: "kw-tables-immutable", Func: "asm/enum, ir/enum, ir/types", Kind: "keyword-roundtrip", Status: "unsat", Backend: "govc-static",
		Detail: "no function of the packages holding the keyword tables writes a package-level variable after initialisation"}
	if pr := e.tablesImmutable(ps); len(pr) > 0 {
		if len(pr) > 6 {
			pr = pr[:6]
		}
		r.Status, r.Detail = "fail", strings.Join(pr, "; ")
	}
	res = append(res, r)
	return res, nil
}
