package main

// Symbolic execution of one SSA function (NaiveForm) for one behaviour,
// with state merging at joins and Boogie-style loop cutting.

import (
	"fmt"
	"go/constant"
	"go/token"
	"go/types"
	"math/big"
	"sort"
	"strings"

	"golang.org/x/tools/go/ssa"
)

func newBig(v int64) *big.Int { return big.NewInt(v) }

// maxInt bounds lengths and capacities: no Go object exceeds the address space (assumption A2b).
var maxInt = BigLit(new(big.Int).Lsh(big.NewInt(1), 56))

// State is the symbolic state at a program point.
type State struct {
	guard *Term
	cells map[*ssa.Alloc]*Term
	heap  map[string]*Term
	cacheEpoch int   // observer calls that can only fill caches
	obsEpoch int     // number of observer calls so far (cache/ID components first read later are fresh per epoch)
	epoch  string    // heap epoch: components not in heap are the constants H<epoch>_<name>
	splits [][]*Term // guards of the states merged at each join since the last cut point (case-split hints)
}

func (s *State) clone() *State {
	n := &State{guard: s.guard, cells: make(map[*ssa.Alloc]*Term, len(s.cells)), heap: make(map[string]*Term, len(s.heap)), splits: s.splits, epoch: s.epoch, obsEpoch: s.obsEpoch, cacheEpoch: s.cacheEpoch}
	for k, v := range s.cells {
		n.cells[k] = v
	}
	for k, v := range s.heap {
		n.heap[k] = v
	}
	return n
}

// LVal is a statically resolved location.
type LVal struct {
	kind  string // cell, field, elem, pcell
	alloc *ssa.Alloc
	path  []int  // field path inside a cell holding a struct/array value
	ipath []*Term // index terms for array components in path (parallel; nil for fields)
	obj   *Term  // object reference (field)
	si    *structInfo
	fidx  int
	slc   *Term // slice value (elem)
	idx   *Term
	ety   types.Type
	ptr   *Term // pcell reference
	ty    types.Type // type of the location's content
}

type loopInfo struct {
	head    *ssa.BasicBlock
	ordinal int
	blocks  map[*ssa.BasicBlock]bool
	backs   []*ssa.BasicBlock
	spec    *LoopSpec
	variant *Term
	entrySt *State // state on loop entry, before the havoc (for entry(e) in invariants)
}

type retInfo struct {
	st      *State
	vals    []*Term
	pos     token.Pos
	nassume int // assumptions visible at the return
}

type FnExec struct {
	e       *Engine
	c       *Ctx
	fn      *ssa.Function
	con     *Contract
	beh     *Behaviour // effective (common + selected)
	behName string
	vals    map[ssa.Value]*Term
	lvals   map[ssa.Value]*LVal
	entry   *State
	params  map[string]specVal
	ghosts  map[string]specVal
	out     map[*ssa.BasicBlock]map[*ssa.BasicBlock]*State
	loops   map[*ssa.BasicBlock]*loopInfo
	order   []*ssa.BasicBlock
	rets    []retInfo
	depth   int
	parent  *FnExec
	prefix  string // obligation name prefix
	nobl    map[string]int
	entryAlloc *Term
	checkAssigns bool
	mapIter map[ssa.Value]*mapIterInfo
	trustedUsed map[string]bool
	deferred []*ssa.Defer
	freeCells map[*ssa.FreeVar]*Term // closure free variables: pointer terms
	tuples map[ssa.Value][]*Term
	lemmasUsed map[*Axiom]bool
	callBindings []*Term // bindings of the closure whose contract is being applied
	opaqueTargets []*ssa.Function // possible targets of the call being treated as opaque
	opaqueUsed    map[string]bool // (root) calls with unknown effects made by the unit
	privAllocs map[*ssa.Alloc]bool
	curInstr   ssa.Instruction // instruction being executed
	privRefs   map[*ssa.Alloc]*Term
}

type mapIterInfo struct {
	m      *Term
	kt, vt types.Type
	isStr  bool
	str    *Term
}

func (fx *FnExec) fail(f string, a ...interface{}) {
	n := "spec"
	if fx.fn != nil {
		n = fx.fn.Name()
	}
	panic(unsupported(fmt.Sprintf("%s: ", n) + fmt.Sprintf(f, a...)))
}

func (fx *FnExec) pos(p token.Pos) string {
	if !p.IsValid() {
		return ""
	}
	ps := fx.e.fset.Position(p)
	return fmt.Sprintf("%s:%d", strings.TrimPrefix(ps.Filename, fx.e.repo+"/"), ps.Line)
}

// oblig records an obligation under the current state's guard.
func (fx *FnExec) oblig(st *State, kind, what string, p token.Pos, goal *Term) {
	fx.obligN(st, kind, what, p, goal, -1)
}

// obligN records an obligation that may only use the first nassume assumptions (-1: all so far).
func (fx *FnExec) obligN(st *State, kind, what string, p token.Pos, goal *Term, nassume int) {
	if fx.nobl == nil {
		fx.nobl = map[string]int{}
	}
	// a conjunction is proved conjunct by conjunct (earlier conjuncts as hypotheses):
	// smaller goals, and a failure names the conjunct
	if goal.Op == "and" && len(goal.Args) > 1 && len(goal.Args) <= 16 && (kind == "call-pre" || kind == "inv-entry" || kind == "inv-pres" || kind == "ensures") {
		var prev []*Term
		for i, c := range goal.Args {
			w := what
			if w == "" {
				w = "c"
			}
			fx.obligN(st, kind, fmt.Sprintf("%s&%d", w, i), p, Implies(And(prev...), c), nassume)
			prev = append(prev, c)
		}
		return
	}
	if r := fx.root(); r.con != nil && r.con.Partial {
		switch kind {
		case "nil-deref", "bounds", "no-panic", "div-zero", "type-assert", "nil-map":
			// partial correctness: an execution that panics here does not return, so the rest of the path
			// (and the postcondition) is only about the executions on which the check succeeds
			fx.c.Assume(Implies(st.guard, goal))
			fx.trusted("partial correctness of " + r.fn.Name() + ": its postconditions are proved for the executions that return; run-time panics inside it are not excluded")
			return
		}
	}
	base := fx.prefix + "/" + kind
	if what != "" {
		base += ":" + what
	}
	fx.nobl[base]++
	name := base
	if n := fx.nobl[base]; n > 1 {
		name = fmt.Sprintf("%s#%d", base, n)
	}
	if (kind == "inv-pres" || kind == "ensures") && len(st.splits) > 0 && !goal.IsTrue() {
		// case split along the joins since the last cut point: one obligation per
		// combination of merged paths (infeasible combinations are trivially discharged)
		combos := [][]*Term{nil}
		for k := len(st.splits) - 1; k >= 0; k-- {
			if len(combos)*len(st.splits[k]) > 24 {
				break
			}
			var next [][]*Term
			for _, c := range combos {
				for _, g := range st.splits[k] {
					next = append(next, append(append([]*Term{}, c...), g))
				}
			}
			combos = next
		}
		if len(combos) > 1 {
			for i, c := range combos {
				o := &Obligation{Name: fmt.Sprintf("%s/case%d", name, i), Func: fx.fn.String(), Beh: fx.behName, Kind: kind, Pos: fx.pos(p), Guard: And(append([]*Term{st.guard}, c...)...), Goal: goal}
				fx.c.AddObl(o)
				if nassume >= 0 {
					o.nassume = nassume
				}
			}
			return
		}
	}
	o := &Obligation{Name: name, Func: fx.fn.String(), Beh: fx.behName, Kind: kind, Pos: fx.pos(p), Guard: st.guard, Goal: goal}
	fx.c.AddObl(o)
	if nassume >= 0 {
		o.nassume = nassume
	}
}

// ---------------------------------------------------------------------------
// heap access

func (fx *FnExec) heapGet(st *State, name string, s Sort) *Term {
	if fx.e.immHeaps[name] {
		// memory owned by a pure package: never written by /repo, the same in every state
		return fx.c.Const("Himm_"+name, s)
	}
	if t, ok := st.heap[name]; ok {
		return t
	}
	ep := st.epoch
	if ep == "" {
		ep = "0"
	}
	if st.cacheEpoch > 0 && st.obsEpoch == 0 && idFieldRe.MatchString(name) && !strings.HasSuffix(name, "ID") {
		t := fx.c.Fresh("cache"+fmt.Sprint(st.cacheEpoch)+"_"+name, s)
		st.heap[name] = t
		return t
	}
	if st.obsEpoch > 0 && (idFieldRe.MatchString(name) || strings.HasPrefix(name, "G_")) {
		// possibly written by an earlier observer call: unknown, but stable from now on
		t := fx.c.Fresh("obs"+fmt.Sprint(st.obsEpoch)+"_"+name, s)
		st.heap[name] = t
		return t
	}
	return fx.c.Const("H"+ep+"_"+name, s)
}

func (fx *FnExec) heapSet(st *State, name string, t *Term) {
	if fx.e.immHeaps[name] {
		fx.fail("store to %s: memory of a pure package (purepkg) must not be written", name)
	}
	st.heap[name] = fx.c.Name("h_"+name, t)
}

func fieldHeapName(si *structInfo, i int) string {
	return fmt.Sprintf("F_%s_%d_%s", si.id, i, sanitize(si.st.Field(i).Name()))
}

func (fx *FnExec) fieldSort(si *structInfo, i int) Sort {
	return fx.e.sortOf(si.st.Field(i).Type())
}

// emb returns the reference of the sub-object / field i of object r.
func (fx *FnExec) emb(r *Term, si *structInfo, i int) *Term {
	fx.embAxioms()
	k := IntLit(int64(fx.e.fieldID(si, i)))
	return App("emb", SInt, r, k)
}

// embAxioms: field / element addresses are injective, negative and mutually distinct.
func (fx *FnExec) embAxioms() {
	if fx.c.trusted["addrax"] {
		return
	}
	fx.c.trusted["addrax"] = true
	fx.c.DeclareFun("emb", []Sort{SInt, SInt}, SInt)
	fx.c.DeclareFun("embbase", []Sort{SInt}, SInt)
	fx.c.DeclareFun("embfld", []Sort{SInt}, SInt)
	fx.c.DeclareFun("eaddr", []Sort{SInt, SInt}, SInt)
	fx.c.DeclareFun("eaddrbase", []Sort{SInt}, SInt)
	fx.c.DeclareFun("eaddridx", []Sort{SInt}, SInt)
	fx.c.DeclareFun("iseaddr", []Sort{SInt}, SBool)
	rv, kv := Var("r!ea", SInt), Var("k!ea", SInt)
	emb := App("emb", SInt, rv, kv)
	fx.c.Axiom("field addresses are injective, negative and not element addresses", Forall([]*Term{rv, kv},
		And(Eq(App("embbase", SInt, emb), rv), Eq(App("embfld", SInt, emb), kv), Lt(emb, IntLit(0)), Not(App("iseaddr", SBool, emb))), emb))
	bv, iv := Var("b!ea", SInt), Var("i!ea", SInt)
	app := App("eaddr", SInt, bv, iv)
	fx.c.Axiom("element addresses are injective, negative and not field addresses", Forall([]*Term{bv, iv},
		And(Eq(App("eaddrbase", SInt, app), bv), Eq(App("eaddridx", SInt, app), iv), Lt(app, IntLit(0)), App("iseaddr", SBool, app)), app))
}

// eaddr returns the address of element i of the backing array b.
func (fx *FnExec) eaddr(b, i *Term) *Term {
	fx.embAxioms()
	return App("eaddr", SInt, b, i)
}

// readField reads field i of heap object r (struct-typed fields are assembled recursively).
func (fx *FnExec) readField(st *State, r *Term, si *structInfo, i int) *Term {
	ft := si.st.Field(i).Type()
	if _, ok := ft.Underlying().(*types.Struct); ok {
		return fx.readObj(st, fx.emb(r, si, i), ft)
	}
	h := fx.heapGet(st, fieldHeapName(si, i), ArrSort(SInt, fx.fieldSort(si, i)))
	return Select(h, r)
}

func (fx *FnExec) readObj(st *State, r *Term, t types.Type) *Term {
	si := fx.e.structOf(t)
	var args []*Term
	for i := 0; i < si.st.NumFields(); i++ {
		args = append(args, fx.readField(st, r, si, i))
	}
	if si.st.NumFields() == 0 {
		args = append(args, IntLit(0))
	}
	return Ctor(si.ctor, args...)
}

func (fx *FnExec) writeField(st *State, r *Term, si *structInfo, i int, v *Term) {
	ft := si.st.Field(i).Type()
	if _, ok := ft.Underlying().(*types.Struct); ok {
		fx.writeObj(st, fx.emb(r, si, i), ft, v)
		return
	}
	name := fieldHeapName(si, i)
	h := fx.heapGet(st, name, ArrSort(SInt, fx.fieldSort(si, i)))
	fx.heapSet(st, name, Store(h, r, v))
}

func (fx *FnExec) writeObj(st *State, r *Term, t types.Type, v *Term) {
	si := fx.e.structOf(t)
	for i := 0; i < si.st.NumFields(); i++ {
		fx.writeField(st, r, si, i, Sel(si.sels[i], v))
	}
}

// immLocalInit: a is a local variable of a pure-package struct type whose address is taken (`ct := old.CondTyp();
// f(&ct)`). Its memory is written exactly once -- one store of the whole value, in the block of the allocation --
// so the new object can live in the immutable memory of the pure package. Returns that store, or nil.
func (fx *FnExec) immLocalInit(a *ssa.Alloc) *ssa.Store {
	if !a.Heap {
		return nil
	}
	n, ok := a.Type().(*types.Pointer).Elem().(*types.Named)
	if !ok || !fx.e.isPurePkg(n.Obj().Pkg()) {
		return nil
	}
	if _, ok := n.Underlying().(*types.Struct); !ok {
		return nil
	}
	var init *ssa.Store
	for _, ref := range *a.Referrers() {
		switch r := ref.(type) {
		case *ssa.Store:
			if r.Addr != a {
				continue // the address itself is stored somewhere: not a write of the object
			}
			if init != nil || r.Block() != a.Block() {
				return nil
			}
			init = r
		case *ssa.FieldAddr, *ssa.IndexAddr:
			// a field address could be written through
			return nil
		}
	}
	return init
}

// assumeObj: the memory of the fresh object r of struct type t holds the value v (see immLocalInit).
func (fx *FnExec) assumeObj(st *State, r *Term, t types.Type, v *Term) {
	si := fx.e.structOf(t)
	for i := 0; i < si.st.NumFields(); i++ {
		ft := si.st.Field(i).Type()
		if _, ok := ft.Underlying().(*types.Struct); ok {
			fx.assumeObj(st, fx.emb(r, si, i), ft, Sel(si.sels[i], v))
			continue
		}
		h := fx.heapGet(st, fieldHeapName(si, i), ArrSort(SInt, fx.fieldSort(si, i)))
		fx.c.Assume(Implies(st.guard, Eq(Select(h, r), Sel(si.sels[i], v))))
	}
}

// newRef allocates a fresh reference.
func (fx *FnExec) newRef(st *State) *Term {
	a := fx.heapGet(st, "alloc", SInt)
	r := fx.c.Name("ref", a)
	st.heap["alloc"] = Add(a, IntLit(1))
	return r
}

func (fx *FnExec) pheapName(t types.Type) (string, Sort) {
	s := fx.e.sortOf(t)
	return "P_" + sanitize(string(s)), ArrSort(SInt, s)
}

// elemHeapName: the backing arrays of slices live in one heap component per element
// type (two slices of different element types never share memory: no unsafe in the subset).
func (fx *FnExec) elemHeapName(t types.Type) (string, Sort) {
	s := fx.e.sortOf(t)
	id := ""
	if b, ok := t.(*types.Basic); ok {
		id = fmt.Sprintf("b%d", b.Kind())
	} else if _, ok := t.Underlying().(*types.Interface); ok {
		// slices of interface values share one component: contracts pass a []constant.Constant where a
		// []value.Value is expected (same representation), which must read the same memory
		id = "Ifc"
	} else {
		id = typeID(t)
		if len(id) > 48 {
			h := 0
			for _, c := range []byte(id) {
				h = (h*131 + int(c)) % 1000000007
			}
			id = fmt.Sprintf("%s_%d", id[:40], h)
		}
	}
	return "E_" + id, ArrSort(SInt, ArrSort(SInt, s))
}

// elemAt reads element i of slice s from element heap h. For slices whose
// shape is known (explicit constructor) plain array reads are used; for opaque
// slice values the read goes through a named function so that quantified facts
// about slice elements have a clean trigger.
func (fx *FnExec) elemAt(h, s, i *Term) *Term {
	if s.Op == "mkslc" {
		return Select(Select(h, SlcBase(s)), Add(SlcOff(s), i))
	}
	es := h.S.elemSort().elemSort()
	as := h.S.elemSort()
	name := "elem_" + sanitize(string(es))
	if !fx.c.HasDecl(name) {
		// elem(a, s, i): element i of slice s whose backing array currently holds a
		fx.c.DeclareFun(name, []Sort{as, SSlc, SInt}, es)
		av, sv, iv := Var("a!e", as), Var("s!e", SSlc), Var("i!e", SInt)
		app := App(name, es, av, sv, iv)
		fx.c.Axiom("definition of "+name, Forall([]*Term{av, sv, iv},
			Eq(app, App("select", es, av, App("+", SInt, App("soffs", SInt, sv), iv))), app))
	}
	return App(name, es, Select(h, SlcBase(s)), s, i)
}

// ---------------------------------------------------------------------------
// lvalues

func (fx *FnExec) lvalOf(st *State, v ssa.Value) *LVal {
	if lv, ok := fx.lvals[v]; ok {
		return lv
	}
	pt, ok := v.Type().Underlying().(*types.Pointer)
	if !ok {
		fx.fail("lvalOf non-pointer %s", v)
	}
	t := fx.val(st, v)
	if _, isStruct := pt.Elem().Underlying().(*types.Struct); isStruct {
		return &LVal{kind: "obj", obj: t, ty: pt.Elem()}
	}
	// pointer to a scalar: field address or plain cell
	if t.Op == "emb" {
		fid := t.Args[1]
		for key, id := range fx.e.fieldIDs {
			if fid.lit != nil && int64(id) == fid.lit.Int64() {
				parts := strings.Split(key, "#")
				for _, si := range fx.e.structIDs {
					if si.id == parts[0] {
						var idx int
						fmt.Sscanf(parts[1], "%d", &idx)
						return &LVal{kind: "field", obj: t.Args[0], si: si, fidx: idx, ty: pt.Elem()}
					}
				}
			}
		}
	}
	return &LVal{kind: "pcell", ptr: t, ty: pt.Elem()}
}

func (fx *FnExec) load(st *State, lv *LVal, p token.Pos) *Term {
	switch lv.kind {
	case "cell":
		cur, ok := st.cells[lv.alloc]
		if !ok {
			fx.fail("load of unset cell %s", lv.alloc.Comment)
		}
		return fx.getPath(cur, lv.alloc.Type().(*types.Pointer).Elem(), lv.path, lv.ipath)
	case "field":
		fx.nilCheck(st, lv.obj, p)
		return fx.readField(st, lv.obj, lv.si, lv.fidx)
	case "obj":
		fx.nilCheck(st, lv.obj, p)
		return fx.readObj(st, lv.obj, lv.ty)
	case "elem":
		name, s := fx.elemHeapName(lv.ety)
		h := fx.heapGet(st, name, s)
		if len(lv.path) > 0 {
			// a field of a struct-typed slice element (s[i].f)
			return fx.getPath(fx.elemAt(h, lv.slc, lv.idx), lv.ety, lv.path, lv.ipath)
		}
		return fx.elemAt(h, lv.slc, lv.idx)
	case "pcell":
		fx.nilCheck(st, lv.ptr, p)
		name, s := fx.pheapName(lv.ty)
		return Select(fx.heapGet(st, name, s), lv.ptr)
	}
	fx.fail("load: bad lval kind %s", lv.kind)
	return nil
}

func (fx *FnExec) store(st *State, lv *LVal, v *Term, p token.Pos) {
	switch lv.kind {
	case "cell":
		cur, ok := st.cells[lv.alloc]
		if !ok {
			fx.fail("store to unset cell")
		}
		st.cells[lv.alloc] = fx.setPath(cur, lv.alloc.Type().(*types.Pointer).Elem(), lv.path, lv.ipath, v)
	case "field":
		fx.nilCheck(st, lv.obj, p)
		fx.assignCheck(st, lv, p)
		fx.writeField(st, lv.obj, lv.si, lv.fidx, v)
	case "obj":
		fx.nilCheck(st, lv.obj, p)
		si := fx.e.structOf(lv.ty)
		for i := 0; i < si.st.NumFields(); i++ {
			fx.assignCheck(st, &LVal{kind: "field", obj: lv.obj, si: si, fidx: i}, p)
		}
		fx.writeObj(st, lv.obj, lv.ty, v)
	case "elem":
		name, s := fx.elemHeapName(lv.ety)
		if fx.e.pureElemHeaps[name] {
			fx.fail("store to an element of a slice of syntax-tree nodes (%s): such slices are assumed never to be written (A4)", name)
		}
		h := fx.heapGet(st, name, s)
		base := SlcBase(lv.slc)
		fx.assignCheckRef(st, base, "elem", p)
		if len(lv.path) > 0 {
			v = fx.setPath(fx.elemAt(h, lv.slc, lv.idx), lv.ety, lv.path, lv.ipath, v)
		}
		fx.heapSet(st, name, Store(h, base, Store(Select(h, base), Add(SlcOff(lv.slc), lv.idx), v)))
	case "pcell":
		fx.nilCheck(st, lv.ptr, p)
		name, s := fx.pheapName(lv.ty)
		fx.assignCheckRef(st, lv.ptr, "pcell", p)
		fx.heapSet(st, name, Store(fx.heapGet(st, name, s), lv.ptr, v))
	default:
		fx.fail("store: bad lval kind %s", lv.kind)
	}
}

func (fx *FnExec) getPath(cur *Term, t types.Type, path []int, ipath []*Term) *Term {
	for k, i := range path {
		switch u := t.Underlying().(type) {
		case *types.Struct:
			si := fx.e.structOf(t)
			cur = Sel(si.sels[i], cur)
			t = u.Field(i).Type()
		case *types.Array:
			cur = Select(cur, ipath[k])
			t = u.Elem()
		default:
			fx.fail("getPath through %s", t)
		}
	}
	return cur
}

func (fx *FnExec) setPath(cur *Term, t types.Type, path []int, ipath []*Term, v *Term) *Term {
	if len(path) == 0 {
		return v
	}
	switch u := t.Underlying().(type) {
	case *types.Struct:
		si := fx.e.structOf(t)
		var args []*Term
		for j := 0; j < u.NumFields(); j++ {
			f := Sel(si.sels[j], cur)
			if j == path[0] {
				f = fx.setPath(f, u.Field(j).Type(), path[1:], ipath[1:], v)
			}
			args = append(args, f)
		}
		return Ctor(si.ctor, args...)
	case *types.Array:
		inner := fx.setPath(Select(cur, ipath[0]), u.Elem(), path[1:], ipath[1:], v)
		return Store(cur, ipath[0], inner)
	}
	fx.fail("setPath through %s", t)
	return nil
}

func (fx *FnExec) nilCheck(st *State, r *Term, p token.Pos) {
	if r.Op == "emb" || r.Op == "ref" || strings.HasPrefix(r.Op, "ref!") {
		return
	}
	fx.oblig(st, "nil-deref", "", p, Neq(r, IntLit(0)))
}

// assignCheck: when verifying a function against an assigns clause, every heap
// store must hit a location in the assigns set or an object allocated in this call.
func (fx *FnExec) assignCheck(st *State, lv *LVal, p token.Pos) {
	if !fx.checkAssigns || fx.beh == nil || fx.root().beh.AssignsAny {
		return
	}
	root := lv.obj
	// fresh objects (allocated during this call) are always assignable
	var allowed []*Term
	allowed = append(allowed, fx.isFresh(root))
	top := fx.root()
	env := top.specEnvEntry()
	for _, a := range top.beh.Assigns {
		loc := env.assignLoc(a.Expr)
		if loc == nil {
			continue
		}
		if loc.whole != "" {
			if loc.whole == fieldHeapName(lv.si, lv.fidx) || (loc.whole == "caches" && cacheFieldName(lv.si.st.Field(lv.fidx).Name())) {
				allowed = append(allowed, True)
			}
			continue
		}
		if loc.si != nil && loc.si.id == lv.si.id && loc.fidx == lv.fidx {
			allowed = append(allowed, Eq(loc.obj, lv.obj))
		}
	}
	fx.oblig(st, "assigns", fmt.Sprintf("%s.%s", lv.si.id, lv.si.st.Field(lv.fidx).Name()), p, Or(allowed...))
}

func (fx *FnExec) assignCheckRef(st *State, ref *Term, kind string, p token.Pos) {
	if !fx.checkAssigns || fx.beh == nil || fx.root().beh.AssignsAny {
		return
	}
	allowed := []*Term{fx.isFresh(ref)}
	top := fx.root()
	env := top.specEnvEntry()
	for _, a := range top.beh.Assigns {
		loc := env.assignLoc(a.Expr)
		if loc != nil && loc.ref != nil && loc.refKind == kind {
			allowed = append(allowed, Eq(loc.ref, ref))
		}
		if loc != nil && loc.whole == "*"+kind {
			allowed = append(allowed, True)
		}
	}
	fx.oblig(st, "assigns", kind, p, Or(allowed...))
}

// isFresh: reference allocated during this call (root of embedded refs considered).
func (fx *FnExec) isFresh(r *Term) *Term {
	root := r
	for root.Op == "emb" {
		root = root.Args[0]
	}
	return Ge(root, fx.entryAlloc)
}

// ---------------------------------------------------------------------------
// values

func (fx *FnExec) val(st *State, v ssa.Value) *Term {
	if t, ok := fx.vals[v]; ok {
		return t
	}
	switch x := v.(type) {
	case *ssa.Const:
		return fx.constVal(x)
	case *ssa.Function:
		r := IntLit(int64(fx.e.funcID(x)))
		if key := "fnmeaning " + x.String(); !fx.c.trusted[key] {
			fx.c.trusted[key] = true
			fx.closureMeaning(st, x, r, 0)
		}
		return r
	case *ssa.Global:
		// address of a package-level variable: a fixed pcell / object reference
		return fx.globalRef(x)
	case *ssa.FreeVar:
		if t, ok := fx.freeCells[x]; ok {
			return t
		}
		t := fx.c.Const(fmt.Sprintf("fv_%s_%s", sanitize(fx.fn.Name()), x.Name()), SInt)
		return t
	case *ssa.Builtin:
		fx.fail("builtin as value")
	}
	fx.fail("no value for %s (%T)", v.Name(), v)
	return nil
}

func (e *Engine) funcID(f *ssa.Function) int {
	return e.typeTag(types.NewNamed(types.NewTypeName(token.NoPos, nil, "func:"+f.String(), nil), types.Typ[types.Int], nil))
}

func (fx *FnExec) globalRef(g *ssa.Global) *Term {
	name := "glob_" + sanitize(g.Pkg.Pkg.Path()+"."+g.Name())
	t := fx.c.Const(name, SInt)
	key := "globax " + name
	// globals live below any allocation made during verification and are non-nil & distinct
	id := int64(fx.e.typeTag(types.NewNamed(types.NewTypeName(token.NoPos, nil, "glob:"+name, nil), types.Typ[types.Int], nil)))
	if !fx.c.trusted[key] {
		fx.c.trusted[key] = true
		fx.c.defs = append(fx.c.defs, Eq(t, IntLit(1000000+id)))
	}
	nameDefs[name] = IntLit(1000000 + id)
	return t
}

func (fx *FnExec) constVal(c *ssa.Const) *Term {
	t := c.Type()
	if c.Value == nil {
		return fx.e.zero(t)
	}
	switch u := t.Underlying().(type) {
	case *types.Basic:
		switch {
		case u.Info()&types.IsBoolean != 0:
			return BoolLit(constant.BoolVal(c.Value))
		case u.Info()&types.IsInteger != 0:
			v, ok := constant.Int64Val(constant.ToInt(c.Value))
			if ok {
				return IntLit(v)
			}
			bi, _ := new(big.Int).SetString(constant.ToInt(c.Value).ExactString(), 10)
			return BigLit(bi)
		case u.Info()&types.IsString != 0:
			return fx.strConst(constant.StringVal(c.Value))
		case u.Info()&types.IsFloat != 0:
			return fx.c.Const("float_"+sanitize(c.Value.ExactString()), SInt)
		}
	}
	fx.fail("constant of type %s", t)
	return nil
}

// strConst returns a string value for a Go string constant.
func (fx *FnExec) strConst(s string) *Term { return strConst(fx.c, s) }

func strConst(c *Ctx, s string) *Term {
	if len(s) == 0 {
		return MkStr(zeroArr, IntLit(0))
	}
	name := fmt.Sprintf("strc_%x", s)
	if len(name) > 60 {
		name = fmt.Sprintf("strc_%x_%d", s[:16], len(s))
		// disambiguate by a content hash
		h := 0
		for _, b := range []byte(s) {
			h = (h*131 + int(b)) % 1000000007
		}
		name += fmt.Sprintf("_%d", h)
	}
	arr := c.Const(name, SArrI)
	key := "strc " + name
	if !c.trusted[key] {
		c.trusted[key] = true
		for i := 0; i < len(s); i++ {
			c.defs = append(c.defs, Eq(App("select", SInt, arr, IntLit(int64(i))), IntLit(int64(s[i]))))
		}
		constStrings[name] = s
	}
	return MkStr(arr, IntLit(int64(len(s))))
}

var constStrings = map[string]string{}

// constStringOf recognises a term built by strConst.
func constStringOf(t *Term) (string, bool) {
	if t.Op != "mkstr" {
		return "", false
	}
	arr, ln := t.Args[0], t.Args[1]
	if ln.lit == nil {
		return "", false
	}
	n := int(ln.lit.Int64())
	if n == 0 {
		return "", true
	}
	off := 0
	if arr.Op == "shl" && arr.Args[1].lit != nil {
		off = int(arr.Args[1].lit.Int64())
		arr = arr.Args[0]
	}
	s, ok := constStrings[arr.Op]
	if !ok || off < 0 || off+n > len(s) {
		return "", false
	}
	return s[off : off+n], true
}

// ---------------------------------------------------------------------------
// CFG preparation

func (fx *FnExec) prepareCFG() {
	fn := fx.fn
	fx.loops = map[*ssa.BasicBlock]*loopInfo{}
	// back edges: p -> h with h dominating p
	for _, b := range fn.Blocks {
		for _, s := range b.Succs {
			if s.Dominates(b) {
				li := fx.loops[s]
				if li == nil {
					li = &loopInfo{head: s, blocks: map[*ssa.BasicBlock]bool{s: true}}
					fx.loops[s] = li
				}
				li.backs = append(li.backs, b)
				// natural loop
				stack := []*ssa.BasicBlock{b}
				for len(stack) > 0 {
					x := stack[len(stack)-1]
					stack = stack[:len(stack)-1]
					if li.blocks[x] {
						continue
					}
					li.blocks[x] = true
					stack = append(stack, x.Preds...)
				}
			}
		}
	}
	var heads []*ssa.BasicBlock
	for h := range fx.loops {
		heads = append(heads, h)
	}
	sort.Slice(heads, func(i, j int) bool { return heads[i].Index < heads[j].Index })
	for i, h := range heads {
		fx.loops[h].ordinal = i
	}
	// reverse postorder ignoring back edges
	seen := map[*ssa.BasicBlock]bool{}
	var post []*ssa.BasicBlock
	var dfs func(b *ssa.BasicBlock)
	dfs = func(b *ssa.BasicBlock) {
		seen[b] = true
		for _, s := range b.Succs {
			if seen[s] || s.Dominates(b) {
				continue
			}
			dfs(s)
		}
		post = append(post, b)
	}
	dfs(fn.Blocks[0])
	if fn.Recover != nil && !seen[fn.Recover] {
		// recover block unreachable in our subset
	}
	for i := len(post) - 1; i >= 0; i-- {
		fx.order = append(fx.order, post[i])
	}
}

// modified sets of a loop: cells and heap components stored inside it.
type modSet struct {
	cells map[*ssa.Alloc]bool
	heaps map[string]Sort
	full  map[string]bool        // component modified in a way not attributable to a known object
	sites map[string][]ssa.Value // direct stores: the object / slice / map operand per component
	opaque bool // contains a call with unknown heap effects
	caches bool // contains a call that may fill the Typ / Successors caches
	observer bool // contains an observer call that may also write ID fields
}

func (fx *FnExec) rootAlloc(v ssa.Value) *ssa.Alloc {
	for {
		switch x := v.(type) {
		case *ssa.Alloc:
			return x
		case *ssa.FieldAddr:
			v = x.X
		case *ssa.IndexAddr:
			if _, ok := x.X.Type().Underlying().(*types.Pointer); ok {
				v = x.X
			} else {
				return nil
			}
		default:
			return nil
		}
	}
}

func (fx *FnExec) loopModSet(li *loopInfo) *modSet {
	ms := &modSet{cells: map[*ssa.Alloc]bool{}, heaps: map[string]Sort{}, full: map[string]bool{}, sites: map[string][]ssa.Value{}}
	for b := range li.blocks {
		for _, ins := range b.Instrs {
			tmp := &modSet{cells: ms.cells, heaps: map[string]Sort{}, full: map[string]bool{}, sites: map[string][]ssa.Value{}}
			fx.instrMods(ins, tmp)
			if tmp.opaque {
				ms.opaque = true
			}
			if tmp.caches {
				ms.caches = true
			}
			if tmp.observer {
				ms.observer = true
			}
			var site ssa.Value
			fresh := false
			switch x := ins.(type) {
			case *ssa.Store:
				switch a := x.Addr.(type) {
				case *ssa.FreeVar:
					site = a
				case *ssa.Alloc:
					if a.Heap {
						site = a
					}
				case *ssa.FieldAddr:
					site = a.X
				case *ssa.IndexAddr:
					switch a.X.Type().Underlying().(type) {
					case *types.Slice, *types.Pointer:
						site = a.X // slice value, or pointer to a (heap) array such as a varargs array
					}
				}
			case *ssa.MapUpdate:
				site = x.Map
			case *ssa.Alloc, *ssa.MakeSlice, *ssa.MakeMap, *ssa.MakeClosure:
				fresh = true
			case ssa.CallInstruction:
				if b, ok := x.Common().Value.(*ssa.Builtin); ok && b.Name() == "append" {
					fresh = true
				}
			}
			for h, so := range tmp.heaps {
				ms.heaps[h] = so
				switch {
				case len(tmp.sites[h]) > 0:
					ms.sites[h] = append(ms.sites[h], tmp.sites[h]...)
				case tmp.full[h]:
					ms.full[h] = true
				case h == "alloc" || fresh:
				case site != nil:
					ms.sites[h] = append(ms.sites[h], site)
				default:
					ms.full[h] = true
				}
			}
		}
	}
	return ms
}

func (fx *FnExec) instrMods(ins ssa.Instruction, ms *modSet) {
	switch x := ins.(type) {
	case *ssa.Store:
		if a := fx.rootAlloc(x.Addr); a != nil && !a.Heap {
			ms.cells[a] = true
			return
		}
		fx.addrMods(x.Addr, ms)
	case *ssa.Alloc:
		if x.Heap {
			ms.heaps["alloc"] = SInt
			et := x.Type().(*types.Pointer).Elem()
			fx.allocMods(et, ms)
		} else {
			ms.cells[x] = true
		}
	case *ssa.MakeSlice:
		ms.heaps["alloc"] = SInt
		n, s := fx.elemHeapName(x.Type().Underlying().(*types.Slice).Elem())
		ms.heaps[n] = s
	case *ssa.MakeMap:
		ms.heaps["alloc"] = SInt
		fx.mapMods(x.Type(), ms)
	case *ssa.MapUpdate:
		fx.mapMods(x.Map.Type(), ms)
	case *ssa.MakeClosure:
		ms.heaps["alloc"] = SInt
	case *ssa.MakeInterface:
	case *ssa.Next:
		// handing out a key records it in the ghost visited set of the iterator
		if !x.IsString {
			if rg, ok := x.Iter.(*ssa.Range); ok {
				if mt, ok := rg.X.Type().Underlying().(*types.Map); ok {
					ks := fx.mapKeySort(mt.Key())
					name := "G_visited_" + sanitize(string(ks))
					ms.heaps[name] = ArrSort(SInt, ArrSort(ks, SBool))
					ms.full[name] = true
				}
			}
		}
	case ssa.CallInstruction:
		fx.callMods(x, ms)
	}
}

func (fx *FnExec) allocMods(et types.Type, ms *modSet) {
	if st, ok := et.Underlying().(*types.Struct); ok {
		si := fx.e.structOf(et)
		for i := 0; i < st.NumFields(); i++ {
			if _, nested := st.Field(i).Type().Underlying().(*types.Struct); nested {
				fx.allocMods(st.Field(i).Type(), ms)
				continue
			}
			ms.heaps[fieldHeapName(si, i)] = ArrSort(SInt, fx.fieldSort(si, i))
		}
		return
	}
	n, s := fx.pheapName(et)
	ms.heaps[n] = s
}

func (fx *FnExec) addrMods(addr ssa.Value, ms *modSet) {
	switch a := addr.(type) {
	case *ssa.FieldAddr:
		pt := a.X.Type().Underlying().(*types.Pointer)
		si := fx.e.structOf(pt.Elem())
		ft := si.st.Field(a.Field).Type()
		if _, nested := ft.Underlying().(*types.Struct); nested {
			fx.allocMods(ft, ms)
			return
		}
		ms.heaps[fieldHeapName(si, a.Field)] = ArrSort(SInt, fx.fieldSort(si, a.Field))
	case *ssa.IndexAddr:
		switch u := a.X.Type().Underlying().(type) {
		case *types.Slice:
			n, s := fx.elemHeapName(u.Elem())
			ms.heaps[n] = s
		case *types.Pointer:
			if at, ok := u.Elem().Underlying().(*types.Array); ok {
				n, s := fx.elemHeapName(at.Elem())
				ms.heaps[n] = s
			}
		default:
			fx.fail("store through index of %s", a.X.Type())
		}
	default:
		pt := addr.Type().Underlying().(*types.Pointer)
		if _, ok := pt.Elem().Underlying().(*types.Struct); ok {
			fx.allocMods(pt.Elem(), ms)
			return
		}
		// unknown scalar pointer: could be a field or a pcell; be conservative
		n, s := fx.pheapName(pt.Elem())
		ms.heaps[n] = s
		for _, si := range fx.e.structIDs {
			for i := 0; i < si.st.NumFields(); i++ {
				if types.Identical(si.st.Field(i).Type(), pt.Elem()) {
					ms.heaps[fieldHeapName(si, i)] = ArrSort(SInt, fx.fieldSort(si, i))
				}
			}
		}
	}
}

func (fx *FnExec) mapMods(t types.Type, ms *modSet) {
	mt := t.Underlying().(*types.Map)
	d, v, ds, vs := fx.mapHeapNames(mt)
	ms.heaps[d] = ds
	ms.heaps[v] = vs
	mapValTypes[v] = mt.Elem()
}

// mapValTypes: Go element type of the map-value heap components (for the reference bound at loop heads)
var mapValTypes = map[string]types.Type{}

// ---------------------------------------------------------------------------
// main loop

// run executes the function body from the prepared entry state.
func (fx *FnExec) run() {
	fx.prepareCFG()
	fx.privAllocs = fx.privateAllocs()

	fx.out = map[*ssa.BasicBlock]map[*ssa.BasicBlock]*State{}
	for _, b := range fx.order {
		var st *State
		if b == fx.fn.Blocks[0] {
			st = fx.entry.clone()
		} else {
			st = fx.mergeInto(b)
			if st == nil {
				continue // unreachable
			}
		}
		if li := fx.loops[b]; li != nil {
			fx.loopHead(li, st)
		}
		fx.execBlock(b, st)
	}
}

type inEdge struct {
	from *ssa.BasicBlock
	st   *State
}

func (fx *FnExec) inEdges(b *ssa.BasicBlock) []inEdge {
	var ins []inEdge
	seen := map[*ssa.BasicBlock]bool{}
	for _, p := range b.Preds {
		if seen[p] {
			continue
		}
		seen[p] = true
		if b.Dominates(p) {
			continue // back edge
		}
		if m := fx.out[p]; m != nil {
			if s := m[b]; s != nil {
				ins = append(ins, inEdge{p, s})
			}
		}
	}
	return ins
}

func (fx *FnExec) mergeStates(ins []*State) *State {
	if len(ins) == 0 {
		return nil
	}
	if len(ins) == 1 {
		return ins[0].clone()
	}
	var guards []*Term
	for _, s := range ins {
		guards = append(guards, s.guard)
	}
	st := &State{guard: fx.c.Name("g", Or(guards...)), cells: map[*ssa.Alloc]*Term{}, heap: map[string]*Term{}}
	// common history of the merged states, then this join
	var common [][]*Term
	for k := 0; ; k++ {
		ok := true
		for _, s := range ins {
			if k >= len(s.splits) || (k < len(ins[0].splits) && &s.splits[k][0] != &ins[0].splits[k][0]) {
				ok = false
				break
			}
		}
		if !ok {
			break
		}
		common = append(common, ins[0].splits[k])
	}
	st.splits = append(append([][]*Term{}, common...), guards)
	// cells present in all predecessors
	for a := range ins[0].cells {
		all := true
		for _, s := range ins[1:] {
			if _, ok := s.cells[a]; !ok {
				all = false
				break
			}
		}
		if !all {
			continue
		}
		v := ins[len(ins)-1].cells[a]
		for i := len(ins) - 2; i >= 0; i-- {
			v = Ite(ins[i].guard, ins[i].cells[a], v)
		}
		if v.Op == "ite" {
			v = fx.c.Name("m_"+a.Comment, v)
		}
		st.cells[a] = v
	}
	hn := map[string]Sort{}
	for _, s := range ins {
		for k, v := range s.heap {
			hn[k] = v.S
		}
	}
	for _, s := range ins {
		if s.obsEpoch > st.obsEpoch {
			st.obsEpoch = s.obsEpoch
		}
		if s.cacheEpoch > st.cacheEpoch {
			st.cacheEpoch = s.cacheEpoch
		}
	}
	st.epoch = ins[0].epoch
	for _, s := range ins[1:] {
		if s.epoch != st.epoch {
			// different heap epochs meet: components untouched in all branches become unknown
			fx.c.nfresh++
			st.epoch = fmt.Sprintf("e%d", fx.c.nfresh)
			break
		}
	}
	var hks []string
	for k := range hn {
		hks = append(hks, k)
	}
	sort.Strings(hks)
	for _, k := range hks {
		v := fx.heapGet(ins[len(ins)-1], k, hn[k])
		for i := len(ins) - 2; i >= 0; i-- {
			v = Ite(ins[i].guard, fx.heapGet(ins[i], k, hn[k]), v)
		}
		if v.Op == "ite" {
			v = fx.c.Name("mh_"+k, v)
		}
		st.heap[k] = v
	}
	return st
}

func (fx *FnExec) mergeInto(b *ssa.BasicBlock) *State {
	ins := fx.inEdges(b)
	var sts []*State
	for _, e := range ins {
		sts = append(sts, e.st)
	}
	st := fx.mergeStates(sts)
	if st == nil {
		return nil
	}
	// phi nodes
	for _, ins2 := range b.Instrs {
		phi, ok := ins2.(*ssa.Phi)
		if !ok {
			break
		}
		var v *Term
		for i := len(ins) - 1; i >= 0; i-- {
			// find edge index
			var ev *Term
			for k, p := range b.Preds {
				if p == ins[i].from {
					ev = fx.val(ins[i].st, phi.Edges[k])
					break
				}
			}
			if v == nil {
				v = ev
			} else {
				v = Ite(ins[i].st.guard, ev, v)
			}
		}
		fx.vals[phi] = v
	}
	return st
}

func (fx *FnExec) setOut(from, to *ssa.BasicBlock, st *State) {
	if fx.out[from] == nil {
		fx.out[from] = map[*ssa.BasicBlock]*State{}
	}
	if prev := fx.out[from][to]; prev != nil {
		// both branches of an If to the same block
		st = fx.mergeStates([]*State{prev, st})
	}
	fx.out[from][to] = st
}

func (fx *FnExec) loopHead(li *loopInfo, st *State) {
	spec := fx.beh.Loops[li.ordinal]
	li.spec = spec
	st.splits = nil
	li.entrySt = st.clone()
	if spec == nil {
		fx.fail("loop %d (%s) has no invariant for behaviour %q", li.ordinal, fx.pos(li.head.Instrs[0].Pos()), fx.behName)
	}
	// 1. invariant holds on entry
	env := fx.specEnvAt(st, li.head)
	var prevE []*Term
	for i, inv := range spec.Invariants {
		// clauses are proved in order; earlier clauses may be used for later ones
		t := env.boolExpr(inv.Expr)
		fx.oblig(st, "inv-entry", fmt.Sprintf("loop%d.%d", li.ordinal, i), li.head.Instrs[0].Pos(), Implies(And(prevE...), t))
		prevE = append(prevE, t)
	}
	// 2. havoc
	ms := fx.loopModSet(li)
	var cells []*ssa.Alloc
	for a := range ms.cells {
		cells = append(cells, a)
	}
	sort.Slice(cells, func(i, j int) bool { return cells[i].Pos() < cells[j].Pos() || (cells[i].Pos() == cells[j].Pos() && cells[i].Name() < cells[j].Name()) })
	for _, a := range cells {
		if _, ok := st.cells[a]; !ok {
			continue // declared inside the loop
		}
		et := a.Type().(*types.Pointer).Elem()
		nv := fx.c.Fresh("hv_"+a.Comment, fx.e.sortOf(et))
		st.cells[a] = nv
		fx.assumeType(st, nv, et)
	}
	var hs []string
	for h := range ms.heaps {
		hs = append(hs, h)
	}
	sort.Strings(hs)
	if ms.opaque {
		fx.havocHeap(st)
		// components the unit keeps across calls with unknown effects survive the havoc; the loop's own
		// stores to them are havoced like any other
		kept := fx.keptKeys(st)
		var hs2 []string
		for _, h := range hs {
			if kept[h] {
				hs2 = append(hs2, h)
			}
		}
		hs = hs2
	}
	allocHead := fx.heapGet(st, "alloc", SInt)
	for _, h := range hs {
		old := fx.heapGet(st, h, ms.heaps[h])
		nv := fx.c.Fresh("hvh_"+h, ms.heaps[h])
		if h == "alloc" {
			fx.advanceAlloc(st)
			continue
		}
		// frame: objects that exist at the loop head and are not the target of a
		// store inside the loop keep their contents
		if !ms.full[h] && strings.HasPrefix(string(ms.heaps[h]), "(Array Int ") {
			var bases []*Term
			ok := true
			anyFresh := false
			for _, site := range ms.sites[h] {
				b, fresh, res := fx.loopInvariantRef(st, li, ms, site)
				if !res {
					ok = false
					break
				}
				if !fresh {
					bases = append(bases, b)
				} else {
					anyFresh = true
				}
			}
			if ok && !anyFresh && len(bases) <= 6 {
				// all stores of the loop hit objects known at the loop head: only their contents change
				cur := old
				seen := map[string]bool{}
				for _, b := range bases {
					if !seen[b.String()] {
						seen[b.String()] = true
						cur = Store(cur, b, fx.c.Fresh("hvo_"+h, ms.heaps[h].elemSort()))
					}
				}
				st.heap[h] = fx.c.Name("hvh_"+h, cur)
				continue
			}
			if ok {
				r := Var("r!f", SInt)
				conds := []*Term{Lt(r, allocHead)}
				seen := map[string]bool{}
				for _, b := range bases {
					if !seen[b.String()] {
						seen[b.String()] = true
						conds = append(conds, Neq(r, b))
					}
				}
				es := ms.heaps[h].elemSort()
				sel := App("select", es, nv, r)
				fx.c.Assume(Implies(st.guard, Forall([]*Term{r}, Implies(And(conds...), Eq(sel, App("select", es, old, r))), sel)))
			}
		}
		st.heap[h] = nv
	}
	// references stored in a havoced map exist: they lie below the allocation counter at the loop head
	// (so they cannot be confused with objects allocated by the coming iteration)
	if !ms.opaque {
		curAlloc := fx.heapGet(st, "alloc", SInt)
		for _, h := range hs {
			et, ok := mapValTypes[h]
			if !ok || !strings.HasPrefix(h, "Mv_") {
				continue
			}
			nv, ok := st.heap[h]
			if !ok {
				continue
			}
			var ref func(v *Term) *Term
			switch et.Underlying().(type) {
			case *types.Pointer, *types.Map:
				ref = func(v *Term) *Term { return v }
			case *types.Interface:
				ref = func(v *Term) *Term { return IfcPtr(v) }
			case *types.Slice:
				ref = func(v *Term) *Term { return SlcBase(v) }
			default:
				continue
			}
			m, k := Var("m!w", SInt), Var("k!w", nv.S.elemSort().keySort())
			sel := App("select", nv.S.elemSort().elemSort(), App("select", nv.S.elemSort(), nv, m), k)
			fx.c.Assume(Implies(st.guard, Forall([]*Term{m, k}, Lt(ref(sel), curAlloc), sel)))
		}
	}
	if ms.observer && !ms.opaque {
		fx.opaqueTargets = nil
		fx.observerHavoc(st)
	} else if ms.caches && !ms.opaque {
		fx.opaqueTargets = []*ssa.Function{}
		fx.observerHavoc(st)
	}
	// 3. assume invariant
	env = fx.specEnvAt(st, li.head)
	for _, inv := range spec.Invariants {
		fx.c.Assume(Implies(st.guard, env.boolExpr(inv.Expr)))
	}
	if spec.Decreases != nil {
		li.variant = fx.c.Name("variant", env.expr(spec.Decreases.Expr).t)
	}
	// cover: loop head reachable with invariant
	fx.c.AddObl(&Obligation{Name: fmt.Sprintf("%s/cover:loop%d", fx.prefix, li.ordinal), Func: fx.fn.String(), Beh: fx.behName, Kind: "cover", Guard: st.guard, Goal: False, Cover: true, Pos: fx.pos(li.head.Instrs[0].Pos())})
}

// loopInvariantRef resolves the object/slice/map operand of a store inside a
// loop to a term that is invariant across iterations (evaluated in the state at
// the loop head), or reports that it denotes memory allocated inside the loop.
func (fx *FnExec) loopInvariantRef(st *State, li *loopInfo, ms *modSet, v ssa.Value) (ref *Term, fresh bool, ok bool) {
	toRef := func(t *Term) *Term {
		if t.S == SSlc {
			return SlcBase(t)
		}
		return t
	}
	switch x := v.(type) {
	case *ssa.Parameter:
		return toRef(fx.vals[x]), false, true
	case *ssa.FreeVar:
		if t, ok := fx.freeCells[x]; ok {
			return t, false, true
		}
		return nil, false, false
	case *ssa.Alloc:
		if x.Heap && li.blocks[x.Block()] {
			return nil, true, true
		}
		if x.Heap {
			if t, ok := fx.vals[x]; ok {
				return t, false, true
			}
		}
		return nil, false, false
	case *ssa.UnOp:
		if x.Op != token.MUL {
			return nil, false, false
		}
		if a, isA := x.X.(*ssa.Alloc); isA && !a.Heap && !ms.cells[a] {
			if t, ok := st.cells[a]; ok {
				return toRef(t), false, true
			}
		}
		return nil, false, false
	case *ssa.FieldAddr:
		b, fr, ok := fx.loopInvariantRef(st, li, ms, x.X)
		if !ok {
			return nil, false, false
		}
		if fr {
			return nil, true, true
		}
		pt := x.X.Type().Underlying().(*types.Pointer)
		return fx.emb(b, fx.e.structOf(pt.Elem()), x.Field), false, true
	}
	if t, ok := fx.vals[v]; ok && !li.blocks[v.(ssa.Instruction).Block()] {
		return toRef(t), false, true
	}
	return nil, false, false
}

func (fx *FnExec) backEdge(li *loopInfo, st *State, p token.Pos) {
	env := fx.specEnvAt(st, li.head)
	var prev []*Term
	for i, inv := range li.spec.Invariants {
		t := env.boolExpr(inv.Expr)
		fx.oblig(st, "inv-pres", fmt.Sprintf("loop%d.%d", li.ordinal, i), li.head.Instrs[0].Pos(), Implies(And(prev...), t))
		prev = append(prev, t)
	}
	if li.variant != nil {
		nv := env.expr(li.spec.Decreases.Expr).t
		fx.oblig(st, "decreases", fmt.Sprintf("loop%d", li.ordinal), li.head.Instrs[0].Pos(), And(Lt(nv, li.variant), Ge(li.variant, IntLit(0))))
	}
}

// assumeType adds the range/shape facts implied by a Go type for a fresh value.
func (fx *FnExec) assumeType(st *State, v *Term, t types.Type) {
	if r := entryHeapRef(v); r != nil && fx.entryAlloc != nil {
		// read from a heap component nobody has written since the function was entered, at an object
		// that existed at entry: the value existed at entry, so what it refers to lies below the entry
		// allocation counter (at objects allocated later -- by callees under contract -- the entry
		// version of the component stands for their initial contents, and only the current counter bounds it)
		for r.Op == "emb" {
			r = r.Args[0]
		}
		cur := fx.heapGet(st, "alloc", SInt)
		pre := fx.typeInv(v, t, fx.entryAlloc)
		now := fx.typeInv(v, t, cur)
		if same(pre, now) {
			fx.c.Assume(Implies(st.guard, now))
		} else {
			fx.c.Assume(Implies(st.guard, And(now, Implies(Lt(r, fx.entryAlloc), pre))))
		}
		return
	}
	fx.c.Assume(Implies(st.guard, fx.typeInv(v, t, fx.heapGet(st, "alloc", SInt))))
}

func (fx *FnExec) typeInv(v *Term, t types.Type, alloc *Term) *Term {
	if lo, hi, ok := intRange(t); ok {
		return And(Le(lo, v), Le(v, hi))
	}
	switch u := t.Underlying().(type) {
	case *types.Basic:
		if u.Info()&types.IsString != 0 {
			return And(Ge(StrLen(v), IntLit(0)), Le(StrLen(v), maxInt), fx.bytesInRange(StrArr(v)))
		}
	case *types.Slice:
		c := And(Ge(SlcLen(v), IntLit(0)), Le(SlcCap(v), maxInt), Ge(SlcOff(v), IntLit(0)), Le(SlcLen(v), SlcCap(v)), Lt(SlcBase(v), alloc), Ge(SlcBase(v), IntLit(0)),
			Implies(Eq(SlcBase(v), IntLit(0)), Eq(SlcCap(v), IntLit(0))))
		return c
	case *types.Pointer, *types.Map:
		return Lt(v, alloc)
	case *types.Interface:
		c := And(Lt(IfcPtr(v), alloc), Ge(IfcTag(v), IntLit(0)), Implies(Eq(IfcTag(v), IntLit(0)), Eq(IfcPtr(v), IntLit(0))))
		if fx.e.allImplementersArePointers(t, u) {
			// typed nil pointers inside interface values are excluded (standing assumption A9)
			c = And(c, Implies(Neq(IfcTag(v), IntLit(0)), Neq(IfcPtr(v), IntLit(0))))
		}
		if u.NumMethods() > 0 {
			if n, ok := t.(*types.Named); ok && n.Obj().Pkg() != nil && inRepoPkg(n.Obj().Pkg()) {
				// Go's type system: a non-nil value of interface type I has a dynamic type implementing I
				c = And(c, Or(Eq(IfcTag(v), IntLit(0)), fx.implementsCond(v, u)))
			}
		}
		return c
	case *types.Struct:
		si := fx.e.structOf(t)
		var cs []*Term
		for i := 0; i < u.NumFields(); i++ {
			cs = append(cs, fx.typeInv(Sel(si.sels[i], v), u.Field(i).Type(), alloc))
		}
		return And(cs...)
	}
	return True
}

// typeInvQ: range facts for a quantified variable of a Go type (no allocation facts).
func (fx *FnExec) typeInvQ(v *Term, t types.Type) *Term {
	if lo, hi, ok := intRange(t); ok && t != tInt {
		return And(Le(lo, v), Le(v, hi))
	}
	return True
}

// bytesInRange: all elements of a byte array are in 0..255.
func (fx *FnExec) bytesInRange(arr *Term) *Term {
	if strings.Contains(arr.String(), "ite") {
		arr = fx.c.Name("sarr", arr)
		if strings.Contains(arr.String(), "ite") {
			return True
		}
	}
	k := Var("k!b", SInt)
	sel := App("select", SInt, arr, k)
	return Forall([]*Term{k}, And(Le(IntLit(0), sel), Le(sel, IntLit(255))), sel)
}

func (fx *FnExec) execBlock(b *ssa.BasicBlock, st *State) {
	for _, ins := range b.Instrs {
		if _, ok := ins.(*ssa.Phi); ok {
			continue
		}
		if fx.execInstr(b, st, ins) {
			return
		}
	}
}

// execInstr returns true when the instruction ends the block.
func (fx *FnExec) execInstr(b *ssa.BasicBlock, st *State, ins ssa.Instruction) bool {
	fx.curInstr = ins
	switch x := ins.(type) {
	case *ssa.DebugRef:
	case *ssa.Alloc:
		fx.doAlloc(st, x)
	case *ssa.Store:
		if a, ok := x.Addr.(*ssa.Alloc); ok && fx.immLocalInit(a) == x {
			// the one initialising store of a local copy of a pure-package struct: the (immutable) memory of
			// the new object holds the stored value
			fx.assumeObj(st, fx.val(st, a), a.Type().(*types.Pointer).Elem(), fx.val(st, x.Val))
			break
		}
		lv := fx.lvalOf(st, x.Addr)
		fx.store(st, lv, fx.val(st, x.Val), x.Pos())
	case *ssa.UnOp:
		fx.doUnOp(st, x)
	case *ssa.BinOp:
		fx.vals[x] = fx.binop(st, x.Op, fx.val(st, x.X), fx.val(st, x.Y), x.X.Type(), x.Type(), x.Pos(), x.Y)
	case *ssa.Call:
		fx.doCall(st, x)
	case *ssa.Defer:
		fx.deferred = append(fx.deferred, x)
	case *ssa.RunDefers:
		for i := len(fx.deferred) - 1; i >= 0; i-- {
			fx.doDeferred(st, fx.deferred[i])
		}
	case *ssa.Index:
		fx.doIndex(st, x)
	case *ssa.IndexAddr:
		fx.doIndexAddr(st, x)
	case *ssa.FieldAddr:
		fx.doFieldAddr(st, x)
	case *ssa.Field:
		si := fx.e.structOf(x.X.Type())
		fx.vals[x] = Sel(si.sels[x.Field], fx.val(st, x.X))
	case *ssa.Slice:
		fx.doSlice(st, x)
	case *ssa.Lookup:
		fx.doLookup(st, x)
	case *ssa.Extract:
		tup := fx.tuples[x.Tuple]
		if tup == nil {
			fx.fail("extract from unknown tuple %s", x.Tuple.Name())
		}
		fx.vals[x] = tup[x.Index]
	case *ssa.MakeInterface:
		fx.vals[x] = fx.makeIface(fx.val(st, x.X), x.X.Type())
	case *ssa.ChangeInterface:
		fx.vals[x] = fx.val(st, x.X)
	case *ssa.ChangeType:
		fx.vals[x] = fx.val(st, x.X)
	case *ssa.Convert:
		fx.doConvert(st, x)
	case *ssa.TypeAssert:
		fx.doTypeAssert(st, x)
	case *ssa.MakeSlice:
		fx.doMakeSlice(st, x)
	case *ssa.MakeMap:
		fx.doMakeMap(st, x)
	case *ssa.MapUpdate:
		fx.doMapUpdate(st, x)
	case *ssa.Range:
		fx.doRange(st, x)
	case *ssa.Next:
		fx.doNext(st, x)
	case *ssa.MakeClosure:
		fx.doMakeClosure(st, x)
	case *ssa.If:
		c := fx.val(st, x.Cond)
		cn := fx.c.Name("c", c)
		s1 := st.clone()
		s1.guard = fx.c.Name("g", And(st.guard, cn))
		s2 := st.clone()
		s2.guard = fx.c.Name("g", And(st.guard, Not(cn)))
		fx.edge(b, b.Succs[0], s1, x.Pos())
		fx.edge(b, b.Succs[1], s2, x.Pos())
		return true
	case *ssa.Jump:
		fx.edge(b, b.Succs[0], st, x.Pos())
		return true
	case *ssa.Return:
		var vs []*Term
		for _, r := range x.Results {
			vs = append(vs, fx.val(st, r))
		}
		fx.rets = append(fx.rets, retInfo{st: st, vals: vs, pos: x.Pos(), nassume: len(fx.c.assumes)})
		return true
	case *ssa.Panic:
		fx.doPanic(st, x)
		return true
	default:
		fx.fail("unsupported instruction %T: %s", ins, ins)
	}
	return false
}

func (fx *FnExec) edge(from, to *ssa.BasicBlock, st *State, p token.Pos) {
	if li := fx.loops[to]; li != nil && to.Dominates(from) {
		fx.backEdge(li, st, p)
		return
	}
	fx.setOut(from, to, st)
}

func (fx *FnExec) doPanic(st *State, x *ssa.Panic) {
	// allowed if a "panics when" clause covers it
	env := fx.specEnvEntry()
	var allowed []*Term
	for _, p := range fx.beh.Panics {
		allowed = append(allowed, env.boolExpr(p.Expr))
	}
	fx.oblig(st, "no-panic", "explicit", x.Pos(), Or(allowed...))
}

func (fx *FnExec) doAlloc(st *State, x *ssa.Alloc) {
	et := x.Type().(*types.Pointer).Elem()
	if !x.Heap {
		st.cells[x] = fx.e.zero(et)
		fx.lvals[x] = &LVal{kind: "cell", alloc: x, ty: et}
		return
	}
	r := fx.newRef(st)
	fx.vals[x] = r
	if fx.privAllocs[x] {
		if fx.privRefs == nil {
			fx.privRefs = map[*ssa.Alloc]*Term{}
		}
		fx.privRefs[x] = r
	}
	if _, ok := et.Underlying().(*types.Struct); ok {
		if fx.immLocalInit(x) == nil {
			fx.writeObj(st, r, et, fx.e.zero(et))
		}
		fx.lvals[x] = &LVal{kind: "obj", obj: r, ty: et}
		return
	}
	if at, ok := et.Underlying().(*types.Array); ok {
		// heap arrays (e.g. varargs) live in the element heap like slice backing arrays
		name, hs := fx.elemHeapName(at.Elem())
		es := fx.e.sortOf(at.Elem())
		zarr := App(fmt.Sprintf("((as const %s) %s)", ArrSort(SInt, es), fx.e.zero(at.Elem())), ArrSort(SInt, es))
		fx.heapSet(st, name, Store(fx.heapGet(st, name, hs), r, zarr))
		fx.lvals[x] = &LVal{kind: "harr", ptr: r, ty: et, ety: at.Elem()}
		return
	}
	name, s := fx.pheapName(et)
	fx.heapSet(st, name, Store(fx.heapGet(st, name, s), r, fx.e.zero(et)))
	fx.lvals[x] = &LVal{kind: "pcell", ptr: r, ty: et}
}

func (fx *FnExec) doFieldAddr(st *State, x *ssa.FieldAddr) {
	pt := x.X.Type().Underlying().(*types.Pointer)
	si := fx.e.structOf(pt.Elem())
	ft := si.st.Field(x.Field).Type()
	base := fx.lvalOf(st, x.X)
	switch base.kind {
	case "cell":
		fx.lvals[x] = &LVal{kind: "cell", alloc: base.alloc, path: append(append([]int{}, base.path...), x.Field), ipath: append(append([]*Term{}, base.ipath...), nil), ty: ft}
	case "obj":
		fx.nilCheck(st, base.obj, x.Pos())
		fx.vals[x] = fx.emb(base.obj, si, x.Field)
		if _, nested := ft.Underlying().(*types.Struct); nested {
			fx.lvals[x] = &LVal{kind: "obj", obj: fx.vals[x], ty: ft}
		} else {
			fx.lvals[x] = &LVal{kind: "field", obj: base.obj, si: si, fidx: x.Field, ty: ft}
		}
	case "elem":
		if _, isS := base.ety.Underlying().(*types.Struct); !isS {
			fx.fail("FieldAddr on an element of type %s", base.ety)
		}
		fx.lvals[x] = &LVal{kind: "elem", slc: base.slc, idx: base.idx, ety: base.ety,
			path: append(append([]int{}, base.path...), x.Field), ipath: append(append([]*Term{}, base.ipath...), nil), ty: ft}
	default:
		fx.fail("FieldAddr on %s lvalue", base.kind)
	}
}

func (fx *FnExec) doIndexAddr(st *State, x *ssa.IndexAddr) {
	idx := fx.val(st, x.Index)
	switch u := x.X.Type().Underlying().(type) {
	case *types.Slice:
		s := fx.val(st, x.X)
		fx.oblig(st, "bounds", "index", x.Pos(), And(Le(IntLit(0), idx), Lt(idx, SlcLen(s))))
		fx.lvals[x] = &LVal{kind: "elem", slc: s, idx: idx, ety: u.Elem(), ty: u.Elem()}
		fx.vals[x] = fx.eaddr(SlcBase(s), Add(SlcOff(s), idx))
	case *types.Pointer:
		at := u.Elem().Underlying().(*types.Array)
		base := fx.lvalOf(st, x.X)
		fx.oblig(st, "bounds", "index", x.Pos(), And(Le(IntLit(0), idx), Lt(idx, IntLit(at.Len()))))
		if base.kind == "harr" {
			n := IntLit(at.Len())
			fx.lvals[x] = &LVal{kind: "elem", slc: MkSlc(base.ptr, IntLit(0), n, n), idx: idx, ety: at.Elem(), ty: at.Elem()}
			return
		}
		if base.kind != "cell" {
			fx.fail("IndexAddr on %s array lvalue", base.kind)
		}
		fx.lvals[x] = &LVal{kind: "cell", alloc: base.alloc, path: append(append([]int{}, base.path...), -1), ipath: append(append([]*Term{}, base.ipath...), idx), ty: at.Elem()}
	default:
		fx.fail("IndexAddr on %s", x.X.Type())
	}
}

func (fx *FnExec) doIndex(st *State, x *ssa.Index) {
	idx := fx.val(st, x.Index)
	switch u := x.X.Type().Underlying().(type) {
	case *types.Basic: // string
		s := fx.val(st, x.X)
		fx.oblig(st, "bounds", "strindex", x.Pos(), And(Le(IntLit(0), idx), Lt(idx, StrLen(s))))
		fx.vals[x] = StrAt(s, idx)
	case *types.Array:
		a := fx.val(st, x.X)
		fx.oblig(st, "bounds", "index", x.Pos(), And(Le(IntLit(0), idx), Lt(idx, IntLit(u.Len()))))
		fx.vals[x] = Select(a, idx)
	default:
		fx.fail("Index on %s", x.X.Type())
	}
}

func (fx *FnExec) doSlice(st *State, x *ssa.Slice) {
	v := fx.val(st, x.X)
	var lo, hi *Term
	if x.Low != nil {
		lo = fx.val(st, x.Low)
	} else {
		lo = IntLit(0)
	}
	switch u := x.X.Type().Underlying().(type) {
	case *types.Basic: // string
		if x.High != nil {
			hi = fx.val(st, x.High)
		} else {
			hi = StrLen(v)
		}
		fx.oblig(st, "bounds", "strslice", x.Pos(), And(Le(IntLit(0), lo), Le(lo, hi), Le(hi, StrLen(v))))
		fx.vals[x] = MkStr(Shl(StrArr(v), lo), Sub(hi, lo))
	case *types.Slice:
		if x.High != nil {
			hi = fx.val(st, x.High)
		} else {
			hi = SlcLen(v)
		}
		if x.Max != nil {
			fx.fail("3-index slice")
		}
		fx.oblig(st, "bounds", "slice", x.Pos(), And(Le(IntLit(0), lo), Le(lo, hi), Le(hi, SlcCap(v))))
		fx.vals[x] = MkSlc(SlcBase(v), Add(SlcOff(v), lo), Sub(hi, lo), Sub(SlcCap(v), lo))
	case *types.Pointer:
		at := u.Elem().Underlying().(*types.Array)
		base := fx.lvalOf(st, x.X)
		if base.kind != "harr" {
			fx.fail("slice of %s array pointer", base.kind)
		}
		n := IntLit(at.Len())
		if x.High != nil {
			hi = fx.val(st, x.High)
		} else {
			hi = n
		}
		fx.oblig(st, "bounds", "slice", x.Pos(), And(Le(IntLit(0), lo), Le(lo, hi), Le(hi, n)))
		fx.vals[x] = MkSlc(base.ptr, lo, Sub(hi, lo), Sub(n, lo))
	default:
		fx.fail("Slice on %s", x.X.Type())
	}
}

func (fx *FnExec) doUnOp(st *State, x *ssa.UnOp) {
	switch x.Op {
	case token.MUL:
		lv := fx.lvalOf(st, x.X)
		v := fx.load(st, lv, x.Pos())
		fx.vals[x] = v
		// pointer-ish values loaded from the pre-existing heap are below the allocation counter
		if lv.kind != "cell" {
			fx.assumeType(st, v, x.Type())
		}
	case token.NOT:
		fx.vals[x] = Not(fx.val(st, x.X))
	case token.SUB:
		fx.vals[x] = fx.wrap(Neg(fx.val(st, x.X)), x.Type())
	case token.XOR:
		fx.vals[x] = fx.bitop("bxor1", x.Type(), fx.val(st, x.X))
	default:
		fx.fail("unop %s", x.Op)
	}
}

// wrap applies the modular semantics for small unsigned types; wider types are
// treated as mathematical (assumption A2) unless overflow checking is on.
func (fx *FnExec) wrap(v *Term, t types.Type) *Term {
	b, ok := t.Underlying().(*types.Basic)
	if !ok {
		return v
	}
	switch b.Kind() {
	case types.Uint8:
		if v.lit != nil {
			return Mod(v, IntLit(256))
		}
		return Mod(v, IntLit(256))
	case types.Uint16:
		return Mod(v, IntLit(65536))
	}
	return v
}

func (fx *FnExec) bitop(name string, t types.Type, args ...*Term) *Term {
	var sorts []Sort
	for range args {
		sorts = append(sorts, SInt)
	}
	fx.c.DeclareFun(name, sorts, SInt)
	return App(name, SInt, args...)
}

func isUnsigned(t types.Type) bool {
	b, ok := t.Underlying().(*types.Basic)
	return ok && b.Info()&types.IsUnsigned != 0
}

func typeBits(t types.Type) int {
	b, ok := t.Underlying().(*types.Basic)
	if !ok {
		return 64
	}
	switch b.Kind() {
	case types.Int8, types.Uint8:
		return 8
	case types.Int16, types.Uint16:
		return 16
	case types.Int32, types.Uint32:
		return 32
	}
	return 64
}

func pow2(k int64) *Term { return BigLit(new(big.Int).Lsh(big.NewInt(1), uint(k))) }

func (fx *FnExec) binop(st *State, op token.Token, a, b *Term, opT, resT types.Type, p token.Pos, yv ssa.Value) *Term {
	ub := opT.Underlying()
	if bt, ok := ub.(*types.Basic); ok && bt.Info()&types.IsString != 0 {
		switch op {
		case token.ADD:
			return fx.strConcat(st, a, b)
		case token.EQL:
			return fx.strEq(a, b)
		case token.NEQ:
			return Not(fx.strEq(a, b))
		case token.LSS:
			return fx.strLt(a, b)
		case token.GTR:
			return fx.strLt(b, a)
		case token.LEQ:
			return Not(fx.strLt(b, a))
		case token.GEQ:
			return Not(fx.strLt(a, b))
		}
		fx.fail("string op %s", op)
	}
	if bt, ok := ub.(*types.Basic); ok && bt.Info()&types.IsFloat != 0 {
		// floats are opaque: comparisons and arithmetic are uninterpreted
		switch op {
		case token.EQL, token.NEQ, token.LSS, token.GTR, token.LEQ, token.GEQ:
			fx.c.DeclareFun("fcmp_"+sanitize(op.String()), []Sort{SInt, SInt}, SBool)
			return App("fcmp_"+sanitize(op.String()), SBool, a, b)
		default:
			fx.c.DeclareFun("fop_"+sanitize(op.String()), []Sort{SInt, SInt}, SInt)
			return App("fop_"+sanitize(op.String()), SInt, a, b)
		}
	}
	switch op {
	case token.EQL:
		return fx.valEq(a, b, opT)
	case token.NEQ:
		return Not(fx.valEq(a, b, opT))
	case token.LSS:
		return Lt(a, b)
	case token.LEQ:
		return Le(a, b)
	case token.GTR:
		return Gt(a, b)
	case token.GEQ:
		return Ge(a, b)
	case token.LAND:
		return And(a, b)
	case token.LOR:
		return Or(a, b)
	case token.ADD:
		return fx.arith(st, Add(a, b), resT, p, "add")
	case token.SUB:
		return fx.arith(st, Sub(a, b), resT, p, "sub")
	case token.MUL:
		return fx.arith(st, Mul(a, b), resT, p, "mul")
	case token.QUO:
		fx.oblig(st, "div-zero", "", p, Neq(b, IntLit(0)))
		if isUnsigned(resT) || (b.lit != nil && b.lit.Sign() > 0) {
			if isUnsigned(resT) {
				return Div(a, b)
			}
			// Go truncates toward zero
			return Ite(Ge(a, IntLit(0)), Div(a, b), Neg(Div(Neg(a), b)))
		}
		return Ite(Ge(a, IntLit(0)), Ite(Gt(b, IntLit(0)), Div(a, b), Neg(Div(a, Neg(b)))),
			Ite(Gt(b, IntLit(0)), Neg(Div(Neg(a), b)), Div(Neg(a), Neg(b))))
	case token.REM:
		fx.oblig(st, "div-zero", "", p, Neq(b, IntLit(0)))
		if isUnsigned(resT) {
			return Mod(a, b)
		}
		absb := Ite(Ge(b, IntLit(0)), b, Neg(b))
		return Ite(Ge(a, IntLit(0)), Mod(a, absb), Neg(Mod(Neg(a), absb)))
	case token.SHL:
		if b.lit != nil && b.lit.IsInt64() && b.lit.Int64() < 64 {
			r := Mul(a, pow2(b.lit.Int64()))
			if isUnsigned(resT) {
				return Mod(r, pow2(int64(typeBits(resT))))
			}
			return fx.arith(st, r, resT, p, "shl")
		}
		return fx.bitop("bshl", resT, a, b)
	case token.SHR:
		if b.lit != nil && b.lit.IsInt64() && b.lit.Int64() < 64 {
			return Div(a, pow2(b.lit.Int64())) // floor division == arithmetic shift
		}
		return fx.bitop("bshr", resT, a, b)
	case token.AND:
		if k, ok := lowMask(b); ok {
			return Mod(a, pow2(k))
		}
		if k, ok := lowMask(a); ok {
			return Mod(b, pow2(k))
		}
		r := fx.bitop("band", resT, a, b)
		if isUnsigned(resT) || true {
			// 0 <= x & y <= min(x,y) for non-negative operands
			fx.c.defs = append(fx.c.defs, Implies(And(Ge(a, IntLit(0)), Ge(b, IntLit(0))), And(Ge(r, IntLit(0)), Le(r, a), Le(r, b))))
		}
		return r
	case token.OR:
		r := fx.bitop("bor", resT, a, b)
		// (x*2^k mod 2^w) | y == that + y when 0 <= y < 2^k
		if k, ok := shiftedBy(a); ok {
			fx.c.defs = append(fx.c.defs, Implies(And(Le(IntLit(0), b), Lt(b, pow2(k)), Ge(a, IntLit(0))), Eq(r, Add(a, b))))
		}
		if k, ok := shiftedBy(b); ok {
			fx.c.defs = append(fx.c.defs, Implies(And(Le(IntLit(0), a), Lt(a, pow2(k)), Ge(b, IntLit(0))), Eq(r, Add(a, b))))
		}
		fx.c.defs = append(fx.c.defs, Implies(And(Ge(a, IntLit(0)), Ge(b, IntLit(0))), And(Ge(r, a), Ge(r, b), Le(r, Add(a, b)))))
		fx.c.defs = append(fx.c.defs, Implies(Eq(a, IntLit(0)), Eq(r, b)), Implies(Eq(b, IntLit(0)), Eq(r, a)))
		return r
	case token.XOR:
		return fx.bitop("bxor", resT, a, b)
	case token.AND_NOT:
		return fx.bitop("bandnot", resT, a, b)
	}
	fx.fail("binop %s", op)
	return nil
}

// lowMask recognises literals 2^k-1.
func lowMask(t *Term) (int64, bool) {
	if t.lit == nil || t.lit.Sign() <= 0 {
		return 0, false
	}
	v := new(big.Int).Add(t.lit, big.NewInt(1))
	if v.BitLen() > 0 && new(big.Int).And(v, t.lit).Sign() == 0 {
		return int64(v.BitLen() - 1), true
	}
	return 0, false
}

// shiftedBy recognises (mod (* x 2^k) 2^w) or (* x 2^k).
func shiftedBy(t *Term) (int64, bool) {
	if t.Op == "mod" && len(t.Args) == 2 {
		t = t.Args[0]
	}
	if t.Op == "*" && len(t.Args) == 2 && t.Args[1].lit != nil {
		l := t.Args[1].lit
		if l.Sign() > 0 && new(big.Int).And(l, new(big.Int).Sub(l, big.NewInt(1))).Sign() == 0 {
			return int64(l.BitLen() - 1), true
		}
	}
	return 0, false
}

func (fx *FnExec) arith(st *State, r *Term, t types.Type, p token.Pos, what string) *Term {
	b, ok := t.Underlying().(*types.Basic)
	if !ok {
		return r
	}
	if b.Kind() == types.Uint8 || b.Kind() == types.Uint16 {
		return fx.wrap(r, t)
	}
	if fx.con != nil && fx.con.Overflow {
		if lo, hi, ok := intRange(t); ok {
			fx.oblig(st, "overflow", what, p, And(Le(lo, r), Le(r, hi)))
		}
	}
	return r
}

func (fx *FnExec) valEq(a, b *Term, t types.Type) *Term {
	switch u := t.Underlying().(type) {
	case *types.Basic:
		if u.Info()&types.IsString != 0 {
			return fx.strEq(a, b)
		}
	case *types.Interface:
		// dynamic types in scope are pointers or scalars boxed injectively
		return And(Eq(IfcTag(a), IfcTag(b)), Eq(IfcPtr(a), IfcPtr(b)))
	case *types.Struct:
		si := fx.e.structOf(t)
		var cs []*Term
		for i := 0; i < u.NumFields(); i++ {
			cs = append(cs, fx.valEq(Sel(si.sels[i], a), Sel(si.sels[i], b), u.Field(i).Type()))
		}
		return And(cs...)
	case *types.Slice:
		// only comparison with nil is legal
		if b.Op == "mkslc" && b.Args[0].lit != nil {
			return Eq(SlcBase(a), IntLit(0))
		}
		if a.Op == "mkslc" && a.Args[0].lit != nil {
			return Eq(SlcBase(b), IntLit(0))
		}
	}
	return Eq(a, b)
}

// ---------------------------------------------------------------------------
// strings

func (fx *FnExec) strEq(a, b *Term) *Term { return strEq(fx.c, a, b) }
func (fx *FnExec) strLt(a, b *Term) *Term { return strLt(fx.c, a, b) }

func declStrFuns(c *Ctx) {
	if c.HasDecl("streq") {
		return
	}
	a, b := Var("a", SStr), Var("b", SStr)
	k, j := Var("k", SInt), Var("j", SInt)
	at := func(s, i *Term) *Term {
		return App("select", SInt, App("sarr", SArrI, s), i)
	}
	la, lb := App("slen", SInt, a), App("slen", SInt, b)
	eq := And(Eq(la, lb), Forall([]*Term{k}, Implies(And(Le(IntLit(0), k), Lt(k, la)), Eq(at(a, k), at(b, k)))))
	c.DefineFun("streq", []*Term{a, b}, SBool, eq, false)
	// a < b lexicographically
	lt := Exists([]*Term{k}, And(Le(IntLit(0), k), Le(k, la), Le(k, lb),
		Forall([]*Term{j}, Implies(And(Le(IntLit(0), j), Lt(j, k)), Eq(at(a, j), at(b, j)))),
		Or(And(Eq(k, la), Lt(k, lb)), And(Lt(k, la), Lt(k, lb), Lt(at(a, k), at(b, k))))))
	c.DefineFun("strlt", []*Term{a, b}, SBool, lt, false)
}

func strEq(c *Ctx, a, b *Term) *Term {
	// comparison with a constant string: unfold
	if s, ok := constStringOf(b); ok {
		return strEqConst(a, s)
	}
	if s, ok := constStringOf(a); ok {
		return strEqConst(b, s)
	}
	declStrFuns(c)
	return App("streq", SBool, a, b)
}

func strEqConst(a *Term, s string) *Term {
	cs := []*Term{Eq(StrLen(a), IntLit(int64(len(s))))}
	for i := 0; i < len(s); i++ {
		cs = append(cs, Eq(StrAt(a, IntLit(int64(i))), IntLit(int64(s[i]))))
	}
	return And(cs...)
}

func strLt(c *Ctx, a, b *Term) *Term {
	declStrFuns(c)
	return App("strlt", SBool, a, b)
}

// strConcat returns a fresh string constrained to be a ++ b.
func (fx *FnExec) strConcat(st *State, a, b *Term) *Term {
	if sa, ok := constStringOf(a); ok {
		if sb, ok2 := constStringOf(b); ok2 {
			return fx.strConst(sa + sb)
		}
		if sa == "" {
			return b
		}
	}
	if sb, ok := constStringOf(b); ok && sb == "" {
		return a
	}
	// a short constant suffix: exact, quantifier-free (contents beyond the length are irrelevant)
	if sb, ok := constStringOf(b); ok && len(sb) <= 8 {
		arr := StrArr(a)
		la := StrLen(a)
		for i := 0; i < len(sb); i++ {
			arr = Store(arr, Add(la, IntLit(int64(i))), IntLit(int64(sb[i])))
		}
		return MkStr(arr, Add(la, IntLit(int64(len(sb)))))
	}
	// a short constant prefix: prepend element by element
	if sa, ok := constStringOf(a); ok && len(sa) <= 8 {
		arr := StrArr(b)
		for i := len(sa) - 1; i >= 0; i-- {
			arr = ConsArr(IntLit(int64(sa[i])), arr)
		}
		return MkStr(arr, Add(StrLen(b), IntLit(int64(len(sa)))))
	}
	// an operand of known short length (e.g. s[:1]): exact as well
	if n := StrLen(b); n.lit != nil && n.lit.IsInt64() && n.lit.Int64() >= 0 && n.lit.Int64() <= 8 {
		arr := StrArr(a)
		la := StrLen(a)
		for i := int64(0); i < n.lit.Int64(); i++ {
			arr = Store(arr, Add(la, IntLit(i)), StrAt(b, IntLit(i)))
		}
		return MkStr(arr, Add(la, n))
	}
	if n := StrLen(a); n.lit != nil && n.lit.IsInt64() && n.lit.Int64() >= 0 && n.lit.Int64() <= 8 {
		arr := StrArr(b)
		for i := n.lit.Int64() - 1; i >= 0; i-- {
			arr = ConsArr(StrAt(a, IntLit(i)), arr)
		}
		return MkStr(arr, Add(StrLen(b), n))
	}
	arr := fx.c.Fresh("cat", SArrI)
	la, lb := StrLen(a), StrLen(b)
	k := Var("k!c", SInt)
	sel := App("select", SInt, arr, k)
	fx.c.defs = append(fx.c.defs,
		Forall([]*Term{k}, Implies(And(Le(IntLit(0), k), Lt(k, la)), Eq(sel, StrAt(a, k))), sel),
		Forall([]*Term{k}, Implies(And(Le(la, k), Lt(k, Add(la, lb))), Eq(sel, StrAt(b, Sub(k, la)))), sel),
		fx.bytesInRange(arr))
	// literal pieces: instantiate eagerly for constant operands (helps the solvers)
	if sa, ok := constStringOf(a); ok {
		for i := 0; i < len(sa); i++ {
			fx.c.defs = append(fx.c.defs, Eq(App("select", SInt, arr, IntLit(int64(i))), IntLit(int64(sa[i]))))
		}
	}
	if sb, ok := constStringOf(b); ok {
		for i := 0; i < len(sb); i++ {
			fx.c.defs = append(fx.c.defs, Eq(App("select", SInt, arr, Add(la, IntLit(int64(i)))), IntLit(int64(sb[i]))))
		}
	}
	return MkStr(arr, Add(la, lb))
}


// entryHeapRef: if t is a read select(H0_..., r) from a heap component still in its entry
// version, the reference r that was read (nil otherwise).
func entryHeapRef(t *Term) *Term {
	if t == nil {
		return nil
	}
	if t.Op == "select" && len(t.Args) == 2 {
		a := t.Args[0]
		if len(a.Args) == 0 && strings.HasPrefix(a.Op, "H0_") {
			return t.Args[1]
		}
	}
	return nil
}
