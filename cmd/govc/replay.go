package main

// govc replay: re-runs the check that produced a replay file and reports
// whether the recorded violation reproduces on the current /repo.

import (
	"encoding/json"
	"flag"
	"fmt"
	"os"
	"path/filepath"
	"strings"
)

func cmdReplay(args []string) {
	fs := flag.NewFlagSet("replay", flag.ExitOnError)
	repo := fs.String("repo", "/repo", "")
	verif := fs.String("verif", "/verif", "")
	prop := fs.String("prop", "", "")
	file := fs.String("file", "", "")
	fs.Parse(args)
	b, err := os.ReadFile(*file)
	if err != nil {
		fmt.Fprintln(os.Stderr, err)
		os.Exit(2)
	}
	var rec map[string]interface{}
	if err := json.Unmarshal(b, &rec); err != nil {
		fmt.Fprintln(os.Stderr, err)
		os.Exit(2)
	}
	if p, ok := rec["property"].(string); ok && *prop == "" {
		*prop = p
	}
	var cfg PropConfig
	cb, err := os.ReadFile(filepath.Join(*verif, "props", *prop+".json"))
	if err != nil || json.Unmarshal(cb, &cfg) != nil {
		fmt.Fprintln(os.Stderr, "no config for", *prop)
		os.Exit(2)
	}
	obl, _ := rec["obligation"].(string)
	fmt.Printf("replaying %s of property %s\n", obl, cfg.ID)
	if strings.HasPrefix(obl, "bounded:") {
		name := strings.TrimPrefix(obl, "bounded:")
		for _, h := range cfg.Bounded {
			if h.Name != name {
				continue
			}
			hr := runHarness(h, *repo, *verif, "quick", 0, "")
			want, _ := rec["failing_case"].(string)
			for _, f := range hr.fails {
				if f == want || strings.Split(f, ":")[0] == strings.Split(want, ":")[0] {
					fmt.Printf("reproduced on the real code: %s\n", f)
					fmt.Printf("VIOLATION property=%s replay=%s\n", cfg.ID, *file)
					os.Exit(1)
				}
			}
			if len(hr.fails) > 0 {
				fmt.Printf("the recorded case does not reproduce, but the harness reports: %s\n", hr.fails[0])
				fmt.Printf("VIOLATION property=%s replay=%s\n", cfg.ID, *file)
				os.Exit(1)
			}
			fmt.Println("not reproduced: the harness passes on the current tree")
			os.Exit(0)
		}
		fmt.Fprintln(os.Stderr, "unknown harness", name)
		os.Exit(2)
	}
	// deductive or static obligation: re-run the failing input first (if one was attached)
	if in, ok := rec["failing_input"].(string); ok && cfg.Harness != nil {
		hr := runHarness(*cfg.Harness, *repo, *verif, "quick", 0, obl)
		for _, f := range hr.fails {
			if f == in {
				fmt.Printf("failing input reproduced on the real code: %s\n", f)
				fmt.Printf("VIOLATION property=%s replay=%s\n", cfg.ID, *file)
				os.Exit(1)
			}
		}
		if len(hr.fails) > 0 {
			fmt.Printf("harness reports: %s\n", hr.fails[0])
		}
	}
	// then re-discharge the obligation
	e, err := NewEngine(*repo, *verif, cfg.Packages)
	if err != nil {
		fmt.Println("UNDECIDED", err)
		os.Exit(2)
	}
	if err := e.LoadContracts(); err != nil {
		fmt.Println("UNDECIDED", err)
		os.Exit(2)
	}
	if strings.HasPrefix(obl, "frame:") || strings.HasPrefix(obl, "lock:") {
		for _, s := range cfg.Statics {
			srs, _ := e.runStatic(s, cfg.ID)
			for _, sr := range srs {
				if sr.Name == obl {
					fmt.Printf("%s: %s (%s)\n", sr.Name, sr.Status, sr.Detail)
					if sr.Status != "unsat" {
						fmt.Printf("VIOLATION property=%s replay=%s\n", cfg.ID, *file)
						os.Exit(1)
					}
					os.Exit(0)
				}
			}
		}
		fmt.Println("obligation no longer generated")
		os.Exit(0)
	}
	unitName := obl
	if h := strings.Index(obl, "#"); h >= 0 {
		if i := strings.Index(obl[h:], "/"); i >= 0 {
			unitName = obl[:h+i]
		}
	}
	for fn, con := range e.cons {
		if con.Trusted {
			continue
		}
		for _, u := range e.unitsFor(fn, con) {
			if u.Name != unitName {
				continue
			}
			failed := false
			e.VerifyAll([]*Unit{u}, func(res *UnitResult) {
				if res.Err != "" {
					fmt.Println("UNDECIDED", res.Err)
					return
				}
				for _, r := range solveAll(res.Obls, 8, 30, false) {
					if r.O.Cover || r.R.Status == "unsat" {
						continue
					}
					fmt.Printf("%s: %s %s\n", r.O.Name, r.R.Status, r.R.Output)
					failed = true
				}
			})
			if failed {
				fmt.Printf("VIOLATION property=%s replay=%s\n", cfg.ID, *file)
				os.Exit(1)
			}
			fmt.Println("not reproduced: every obligation of", unitName, "is discharged on the current tree")
			os.Exit(0)
		}
	}
	fmt.Println("UNDECIDED unit", unitName, "not found")
	os.Exit(2)
}
