package main

// Parser for the specification expression language (Go-like expressions
// extended with ==>, <==>, forall/exists, old, result).

import (
	"fmt"
	"strconv"
	"strings"
	"unicode"
)

type SExpr struct {
	Kind string // ident int char string call index slice field unary binary
	Name string // identifier / operator / field name / callee
	Args []*SExpr
	Int  string
	Str  string
	Pos  int
	Recv *SExpr // for a call written x.M(args): the receiver expression x (Name is then the full text "x.M")
}

func (e *SExpr) String() string {
	switch e.Kind {
	case "ident":
		return e.Name
	case "int":
		return e.Int
	case "char":
		return strconv.QuoteRune(rune(e.Str[0]))
	case "string":
		return strconv.Quote(e.Str)
	case "call":
		var as []string
		for _, a := range e.Args {
			as = append(as, a.String())
		}
		return e.Name + "(" + strings.Join(as, ", ") + ")"
	case "index":
		return e.Args[0].String() + "[" + e.Args[1].String() + "]"
	case "slice":
		lo, hi := "", ""
		if e.Args[1] != nil {
			lo = e.Args[1].String()
		}
		if e.Args[2] != nil {
			hi = e.Args[2].String()
		}
		return e.Args[0].String() + "[" + lo + ":" + hi + "]"
	case "field":
		return e.Args[0].String() + "." + e.Name
	case "unary":
		return e.Name + e.Args[0].String()
	case "binary":
		return "(" + e.Args[0].String() + " " + e.Name + " " + e.Args[1].String() + ")"
	case "typed":
		return e.Args[0].String() + " " + e.Name
	}
	return "?"
}

type tok struct {
	kind string // ident int char string op eof
	text string
	pos  int
}

func lexSpec(s string) ([]tok, error) {
	var toks []tok
	i := 0
	for i < len(s) {
		c := s[i]
		switch {
		case c == ' ' || c == '\t' || c == '\n':
			i++
		case unicode.IsLetter(rune(c)) || c == '_':
			j := i
			for j < len(s) && (unicode.IsLetter(rune(s[j])) || unicode.IsDigit(rune(s[j])) || s[j] == '_' || s[j] == '$') {
				j++
			}
			toks = append(toks, tok{"ident", s[i:j], i})
			i = j
		case c >= '0' && c <= '9':
			j := i
			for j < len(s) && (unicode.IsDigit(rune(s[j])) || unicode.IsLetter(rune(s[j]))) {
				j++
			}
			toks = append(toks, tok{"int", s[i:j], i})
			i = j
		case c == '\'':
			j := i + 1
			for j < len(s) && s[j] != '\'' {
				if s[j] == '\\' {
					j++
				}
				j++
			}
			if j >= len(s) {
				return nil, fmt.Errorf("unterminated char literal")
			}
			v, _, _, err := strconv.UnquoteChar(s[i+1:j], '\'')
			if err != nil {
				return nil, err
			}
			toks = append(toks, tok{"char", string([]byte{byte(v)}), i})
			i = j + 1
		case c == '"' || c == '`':
			j := i + 1
			for j < len(s) && s[j] != c {
				if c == '"' && s[j] == '\\' {
					j++
				}
				j++
			}
			if j >= len(s) {
				return nil, fmt.Errorf("unterminated string literal")
			}
			v, err := strconv.Unquote(s[i : j+1])
			if err != nil {
				return nil, err
			}
			toks = append(toks, tok{"string", v, i})
			i = j + 1
		default:
			ops := []string{"<==>", "==>", "&&", "||", "==", "!=", "<=", ">=", "<<", ">>", "&^", "::",
				"<", ">", "+", "-", "*", "/", "%", "!", "(", ")", "[", "]", ",", ".", ":", "&", "|", "^", "{", "}"}
			found := false
			for _, op := range ops {
				if strings.HasPrefix(s[i:], op) {
					toks = append(toks, tok{"op", op, i})
					i += len(op)
					found = true
					break
				}
			}
			if !found {
				return nil, fmt.Errorf("unexpected character %q at %d in %q", c, i, s)
			}
		}
	}
	toks = append(toks, tok{"eof", "", len(s)})
	return toks, nil
}

type specParser struct {
	toks []tok
	p    int
	src  string
}

func parseSpecExpr(s string) (e *SExpr, err error) {
	toks, err := lexSpec(s)
	if err != nil {
		return nil, err
	}
	p := &specParser{toks: toks, src: s}
	defer func() {
		if r := recover(); r != nil {
			if pe, ok := r.(parseErr); ok {
				err = fmt.Errorf("%s in %q", string(pe), s)
				return
			}
			panic(r)
		}
	}()
	e = p.expr(0)
	if p.peek().kind != "eof" {
		p.fail("unexpected token %q", p.peek().text)
	}
	return e, nil
}

type parseErr string

func (p *specParser) fail(f string, a ...interface{}) {
	panic(parseErr(fmt.Sprintf(f, a...) + fmt.Sprintf(" at offset %d", p.peek().pos)))
}
func (p *specParser) peek() tok { return p.toks[p.p] }
func (p *specParser) next() tok { t := p.toks[p.p]; p.p++; return t }
func (p *specParser) isOp(s string) bool {
	t := p.peek()
	return t.kind == "op" && t.text == s
}
func (p *specParser) expect(s string) {
	if !p.isOp(s) {
		p.fail("expected %q, got %q", s, p.peek().text)
	}
	p.next()
}

var binPrec = map[string]int{
	"<==>": 1, "==>": 2, "||": 3, "&&": 4,
	"==": 5, "!=": 5, "<": 5, "<=": 5, ">": 5, ">=": 5,
	"+": 6, "-": 6, "|": 6, "^": 6,
	"*": 7, "/": 7, "%": 7, "&": 7, "<<": 7, ">>": 7, "&^": 7,
}

func (p *specParser) expr(minPrec int) *SExpr {
	lhs := p.unary()
	for {
		t := p.peek()
		if t.kind != "op" {
			return lhs
		}
		prec, ok := binPrec[t.text]
		if !ok || prec < minPrec {
			return lhs
		}
		p.next()
		var rhs *SExpr
		if t.text == "==>" {
			rhs = p.expr(prec) // right assoc
		} else {
			rhs = p.expr(prec + 1)
		}
		lhs = &SExpr{Kind: "binary", Name: t.text, Args: []*SExpr{lhs, rhs}, Pos: t.pos}
	}
}

func (p *specParser) unary() *SExpr {
	t := p.peek()
	if t.kind == "op" && (t.text == "!" || t.text == "-") {
		p.next()
		x := p.unary()
		return &SExpr{Kind: "unary", Name: t.text, Args: []*SExpr{x}, Pos: t.pos}
	}
	return p.postfix(p.primary())
}

func (p *specParser) primary() *SExpr {
	t := p.next()
	switch t.kind {
	case "ident":
		return &SExpr{Kind: "ident", Name: t.text, Pos: t.pos}
	case "int":
		return &SExpr{Kind: "int", Int: t.text, Pos: t.pos}
	case "char":
		return &SExpr{Kind: "char", Str: t.text, Pos: t.pos}
	case "string":
		return &SExpr{Kind: "string", Str: t.text, Pos: t.pos}
	case "op":
		if t.text == "(" {
			e := p.expr(0)
			p.expect(")")
			return e
		}
	}
	p.p--
	p.fail("unexpected token %q", t.text)
	return nil
}

func (p *specParser) postfix(x *SExpr) *SExpr {
	for {
		switch {
		case p.isOp("("):
			p.next()
			var args []*SExpr
			quant := x.Kind == "ident" && (x.Name == "forall" || x.Name == "exists")
			for !p.isOp(")") {
				var a *SExpr
				if quant && p.looksLikeBinder() {
					id := p.next()
					ty := p.typeText()
					a = &SExpr{Kind: "typed", Name: ty, Args: []*SExpr{{Kind: "ident", Name: id.text, Pos: id.pos}}, Pos: id.pos}
				} else {
					a = p.expr(0)
				}
				args = append(args, a)
				if p.isOp(",") {
					p.next()
				} else {
					break
				}
			}
			p.expect(")")
			name := ""
			switch x.Kind {
			case "ident":
				name = x.Name
			case "field":
				name = x.String()
			default:
				p.fail("call of non-identifier")
			}
			var recv *SExpr
			if x.Kind == "field" {
				recv = x.Args[0]
			}
			x = &SExpr{Kind: "call", Name: name, Args: args, Pos: x.Pos, Recv: recv}
		case p.isOp("["):
			p.next()
			var lo, hi *SExpr
			if !p.isOp(":") {
				lo = p.expr(0)
			}
			if p.isOp(":") {
				p.next()
				if !p.isOp("]") {
					hi = p.expr(0)
				}
				p.expect("]")
				x = &SExpr{Kind: "slice", Args: []*SExpr{x, lo, hi}, Pos: x.Pos}
			} else {
				p.expect("]")
				x = &SExpr{Kind: "index", Args: []*SExpr{x, lo}, Pos: x.Pos}
			}
		case p.isOp("."):
			p.next()
			t := p.next()
			if t.kind != "ident" {
				p.fail("expected field name")
			}
			x = &SExpr{Kind: "field", Name: t.text, Args: []*SExpr{x}, Pos: x.Pos}
		default:
			return x
		}
	}
}

// looksLikeBinder: ident followed by a type (ident, *ident, []...) and then ',' .
func (p *specParser) looksLikeBinder() bool {
	i := p.p
	if p.toks[i].kind != "ident" {
		return false
	}
	i++
	for {
		t := p.toks[i]
		if t.kind == "op" && t.text == "*" {
			i++
			continue
		}
		if t.kind == "op" && t.text == "[" && p.toks[i+1].kind == "op" && p.toks[i+1].text == "]" {
			i += 2
			continue
		}
		break
	}
	if p.toks[i].kind != "ident" {
		return false
	}
	i++
	if p.toks[i].kind == "op" && p.toks[i].text == "." && p.toks[i+1].kind == "ident" {
		i += 2
	}
	return p.toks[i].kind == "op" && p.toks[i].text == ","
}

// typeText consumes a simple type: ident, pkg.ident, []T, *T.
func (p *specParser) typeText() string {
	var sb strings.Builder
	for {
		if p.isOp("[") {
			p.next()
			p.expect("]")
			sb.WriteString("[]")
			continue
		}
		if p.isOp("*") {
			p.next()
			sb.WriteString("*")
			continue
		}
		break
	}
	t := p.next()
	if t.kind != "ident" {
		p.fail("expected type name")
	}
	sb.WriteString(t.text)
	if p.isOp(".") {
		p.next()
		t2 := p.next()
		sb.WriteString("." + t2.text)
	}
	return sb.String()
}
