package main

// Calls (contracts, inlining, builtins), conversions, interfaces, maps, closures.

import (
	"fmt"
	"regexp"
	"go/token"
	"go/types"
	"sort"
	"strings"

	"golang.org/x/tools/go/ssa"
)

type closureInfo struct {
	fn       *ssa.Function
	bindings []*Term
}

var closures = map[string]*closureInfo{} // by closure reference term text (per run; reset per FnExec root)

func (fx *FnExec) root() *FnExec {
	for fx.parent != nil {
		fx = fx.parent
	}
	return fx
}

func (fx *FnExec) doMakeClosure(st *State, x *ssa.MakeClosure) {
	r := fx.newRef(st)
	var bs []*Term
	for _, b := range x.Bindings {
		bs = append(bs, fx.val(st, b))
	}
	closures[r.String()] = &closureInfo{fn: x.Fn.(*ssa.Function), bindings: bs}
	fx.vals[x] = r
	fx.closureMeaning(st, x.Fn.(*ssa.Function), r, len(bs))
}

// closureMeaning: a closure without captured variables whose function has a
// contract consisting of postconditions only (a pure predicate or function) is
// known, as a function value, to satisfy them for every argument:
// forall args. ensures[result := apply(r, args)]. The closure itself is
// verified against that contract as a unit of its own.
func (fx *FnExec) closureMeaning(st *State, fn *ssa.Function, r *Term, nbind int) {
	con := fx.e.cons[fn]
	if con == nil || nbind != 0 || con.Inline || len(con.Common.Requires) > 0 || len(con.Common.Assigns) > 0 || len(con.Behs) > 0 {
		return
	}
	if fn.Signature.Results().Len() != 1 || len(con.Common.Ensures) == 0 {
		return
	}
	var vars []*Term
	for _, p := range fn.Params {
		vars = append(vars, Var(p.Name()+"!c", fx.e.sortOf(p.Type())))
	}
	app := fx.applyFuncValue(r, fn.Signature, vars)
	pst := &State{guard: True, cells: map[*ssa.Alloc]*Term{}, heap: map[string]*Term{}, epoch: "SPEC"}
	env := fx.contractEnv(fn, con, vars, pst, pst, []*Term{app})
	env.inSpecBody = true
	for _, en := range con.Common.Ensures {
		body := env.boolExpr(en.Expr)
		if strings.Contains(body.String(), "HSPEC_") {
			return // reads the heap: not a pure function of its arguments
		}
		fx.c.Assume(Forall(vars, body, app))
	}
	fx.trusted("closure " + fn.Name() + " as a function value satisfies its (separately verified) postcondition for every argument")
}

// applyFuncValue models a call through an unknown function value as an
// uninterpreted, deterministic, side-effect-free function of (f, args).
func (fx *FnExec) applyFuncValue(f *Term, sig *types.Signature, args []*Term) *Term {
	if sig.Results().Len() != 1 {
		fx.fail("call through function value with %d results", sig.Results().Len())
	}
	name := "apply"
	sorts := []Sort{SInt}
	for i := 0; i < sig.Params().Len(); i++ {
		s := fx.e.sortOf(sig.Params().At(i).Type())
		sorts = append(sorts, s)
		name += "_" + sanitize(string(s))
	}
	rs := fx.e.sortOf(sig.Results().At(0).Type())
	name += "_to_" + sanitize(string(rs))
	fx.c.DeclareFun(name, sorts, rs)
	fx.root().trusted("function-typed parameters are deterministic and side-effect free")
	return App(name, rs, append([]*Term{f}, args...)...)
}

func (fx *FnExec) trusted(s string) {
	r := fx.root()
	if r.trustedUsed == nil {
		r.trustedUsed = map[string]bool{}
	}
	r.trustedUsed[s] = true
}

func (fx *FnExec) doCall(st *State, x *ssa.Call) {
	res := fx.call(st, x.Common(), x.Pos(), x)
	sig := x.Common().Signature()
	switch sig.Results().Len() {
	case 0:
	case 1:
		if len(res) != 1 {
			fx.fail("call result arity")
		}
		fx.vals[x] = res[0]
	default:
		fx.tuples[x] = res
	}
}

func (fx *FnExec) doDeferred(st *State, d *ssa.Defer) {
	fx.call(st, d.Common(), d.Pos(), nil)
}

func (fx *FnExec) call(st *State, cc *ssa.CallCommon, p token.Pos, instr ssa.Value) []*Term {
	var args []*Term
	for _, a := range cc.Args {
		args = append(args, fx.val(st, a))
	}
	if cc.IsInvoke() {
		recv := fx.val(st, cc.Value)
		return fx.invoke(st, cc, recv, args, p)
	}
	switch callee := cc.Value.(type) {
	case *ssa.Builtin:
		return fx.builtin(st, callee, cc, args, p)
	case *ssa.Function:
		return fx.staticCall(st, callee, args, nil, p)
	case *ssa.MakeClosure:
		var bs []*Term
		for _, b := range callee.Bindings {
			bs = append(bs, fx.val(st, b))
		}
		return fx.staticCall(st, callee.Fn.(*ssa.Function), args, bs, p)
	}
	// call through a function value
	f := fx.val(st, cc.Value)
	if ci, ok := closures[f.String()]; ok {
		return fx.staticCall(st, ci.fn, args, ci.bindings, p)
	}
	sig := cc.Signature()
	return []*Term{fx.applyFuncValue(f, sig, args)}
}

func (fx *FnExec) inRepo(fn *ssa.Function) bool {
	if fn.Pkg == nil {
		if fn.Parent() != nil {
			return fx.inRepo(fn.Parent())
		}
		return false
	}
	p := fn.Pkg.Pkg.Path()
	return p == modPath || strings.HasPrefix(p, modPath+"/")
}

func hasLoop(fn *ssa.Function) bool {
	for _, b := range fn.Blocks {
		for _, s := range b.Succs {
			if s.Dominates(b) {
				return true
			}
		}
	}
	return false
}

func (fx *FnExec) staticCall(st *State, fn *ssa.Function, args, bindings []*Term, p token.Pos) []*Term {
	// byte-set membership in a constant string: computed mechanically, in preference to the general contract
	switch fn.String() {
	case "strings.IndexByte", "strings.ContainsRune", "strings.IndexRune":
		if _, ok := constStringOf(args[0]); ok {
			if r, ok := fx.knownExternal(st, fn.String(), fn, args, p); ok {
				return r
			}
		}
	}
	// strings.TrimPrefix with a constant prefix: the result is the very slice of the argument (exact term, so that
	// facts about s[len(prefix):] carry over without string extensionality)
	if fn.String() == "strings.TrimPrefix" && len(args) == 2 {
		if pre, ok := constStringOf(args[1]); ok {
			s := args[0]
			n := IntLit(int64(len(pre)))
			conds := []*Term{Le(n, StrLen(s))}
			for i := 0; i < len(pre); i++ {
				conds = append(conds, Eq(Select(StrArr(s), IntLit(int64(i))), IntLit(int64(pre[i]))))
			}
			fx.trusted("strings.TrimPrefix(s, c) for a constant c: s[len(c):] when s starts with c, else s (package documentation)")
			return []*Term{Ite(And(conds...), MkStr(Shl(StrArr(s), n), Sub(StrLen(s), n)), s)}
		}
	}
	// synthetic wrappers/thunks: resolve promoted methods to the underlying method
	if con := fx.e.cons[fn]; con != nil && con.Pure {
		res := fx.pureApply(st, fn.String(), fn.Signature, nil, args, true)
		// postconditions of the pure function (verified as a unit of its own under its
		// preconditions, which describe grammar-shaped arguments: assumption A4)
		if len(con.Common.Ensures) > 0 {
			pre := st.clone()
			env := fx.contractEnv(fn, con, args, pre, st, res)
			for _, en := range con.Common.Ensures {
				fx.c.Assume(Implies(st.guard, env.boolExpr(en.Expr)))
			}
			fx.trusted("arguments of the pure function " + fn.Name() + " are grammar-shaped (its preconditions are assumed at call sites, A4)")
		}
		// behaviours: available under their own preconditions (ghost behaviours through `instantiate`)
		if len(con.Behs) > 0 {
			pre := st.clone()
			envPre := fx.contractEnv(fn, con, args, pre, pre, nil)
			envPre.old = nil
			envPost := fx.contractEnv(fn, con, args, pre, st, res)
			for _, b := range con.Behs {
				if len(b.Ghosts) > 0 {
					fx.instantiateBeh(st, fn, con, b, envPre, envPost)
					continue
				}
				var rq, en []*Term
				for _, r := range b.Requires {
					rq = append(rq, envPre.boolExpr(r.Expr))
				}
				for _, r := range b.Ensures {
					en = append(en, envPost.boolExpr(r.Expr))
				}
				fx.c.Assume(Implies(st.guard, Implies(And(rq...), And(en...))))
			}
		}
		return res
	}
	// `opaque !F` in the contract of the unit under verification: calls of F are opaque even though F has a
	// contract (its preconditions are not this unit's business; its effects are unknown but for `keeps`)
	forcedOpaque := false
	if rc := fx.root().con; rc != nil && rc.Opaque["!"+fn.Name()] {
		forcedOpaque = true
	}
	if con := fx.e.cons[fn]; con != nil && !forcedOpaque {
		if con.Inline {
			return fx.inline(st, fn, con, args, bindings, p)
		}
		fx.callBindings = bindings
		defer func() { fx.callBindings = nil }()
		return fx.applyContract(st, fn, con, args, p)
	}
	full := fn.String()
	if r, ok := fx.knownExternal(st, full, fn, args, p); ok {
		return r
	}
	if fx.pureFuncOf(fn) {
		return fx.pureApply(st, full, fn.Signature, nil, args, true)
	}
	if fn.Blocks == nil {
		fx.fail("call to %s: no body and no contract", full)
	}
	if fx.inRepo(fn) || fn.Synthetic != "" {
		rc := fx.root().con
		if !forcedOpaque && !hasLoop(fn) && fx.depth < 6 && len(fn.Blocks) <= 40 && !(rc != nil && rc.Opaque[fn.Name()]) {
			return fx.inline(st, fn, nil, args, bindings, p)
		}
		fx.opaqueTargets = []*ssa.Function{fn}
		return fx.opaqueCall(st, fn.Signature, full)
	}
	// external, no contract: if it receives references it may change what they reach
	for i := 0; i < fn.Signature.Params().Len(); i++ {
		switch fn.Signature.Params().At(i).Type().Underlying().(type) {
		case *types.Pointer, *types.Slice, *types.Map, *types.Interface, *types.Signature:
			return fx.opaqueCall(st, fn.Signature, full)
		}
	}
	if fn.Signature.Recv() != nil {
		return fx.opaqueCall(st, fn.Signature, full)
	}
	fx.trusted("external " + full + " (scalar/string arguments only): result unconstrained, no heap effect (A3)")
	var res []*Term
	sig := fn.Signature
	for i := 0; i < sig.Results().Len(); i++ {
		rt := sig.Results().At(i).Type()
		v := fx.c.Fresh("ext_"+fn.Name(), fx.e.sortOf(rt))
		fx.assumeType(st, v, rt)
		res = append(res, v)
	}
	return res
}

// inline executes the callee body in place (exact semantics, no abstraction).
func (fx *FnExec) inline(st *State, fn *ssa.Function, con *Contract, args, bindings []*Term, p token.Pos) []*Term {
	sub := &FnExec{e: fx.e, c: fx.c, fn: fn, con: con, vals: map[ssa.Value]*Term{}, lvals: map[ssa.Value]*LVal{},
		tuples: map[ssa.Value][]*Term{}, depth: fx.depth + 1, parent: fx, prefix: fx.prefix + ">" + fn.Name(), nobl: fx.nobl,
		entryAlloc: fx.entryAlloc, checkAssigns: fx.checkAssigns, freeCells: map[*ssa.FreeVar]*Term{}}
	sub.beh = newBeh("")
	if con != nil {
		sub.beh = con.Common
	}
	sub.behName = fx.behName
	for i, prm := range fn.Params {
		sub.vals[prm] = args[i]
	}
	for i, fv := range fn.FreeVars {
		if i < len(bindings) {
			sub.freeCells[fv] = bindings[i]
		}
	}
	sub.entry = st.clone()
	sub.params = map[string]specVal{}
	for i, prm := range fn.Params {
		sub.params[prm.Name()] = specVal{args[i], prm.Type()}
	}
	sub.run()
	// merge return states back into st
	if len(sub.rets) == 0 {
		// never returns (always panics): current path becomes unreachable
		st.guard = False
		var res []*Term
		for i := 0; i < fn.Signature.Results().Len(); i++ {
			res = append(res, fx.e.zero(fn.Signature.Results().At(i).Type()))
		}
		return res
	}
	var sts []*State
	for _, r := range sub.rets {
		sts = append(sts, r.st)
	}
	m := fx.mergeStates(sts)
	// only the heap and guard flow back; caller's cells are untouched by callee
	cells := st.cells
	*st = *m
	st.cells = cells
	n := fn.Signature.Results().Len()
	res := make([]*Term, n)
	for i := 0; i < n; i++ {
		v := sub.rets[len(sub.rets)-1].vals[i]
		for k := len(sub.rets) - 2; k >= 0; k-- {
			v = Ite(sub.rets[k].st.guard, sub.rets[k].vals[i], v)
		}
		res[i] = fx.c.Name("r_"+fn.Name(), v)
	}
	return res
}

func resultNames(sig *types.Signature) []string {
	var names []string
	n := sig.Results().Len()
	for i := 0; i < n; i++ {
		nm := sig.Results().At(i).Name()
		if nm == "" || nm == "_" {
			if n == 1 {
				nm = "result"
			} else {
				nm = fmt.Sprintf("result%d", i)
			}
		}
		names = append(names, nm)
	}
	return names
}

// contractEnv builds the environment for a callee contract at a call site.
func (fx *FnExec) contractEnv(fn *ssa.Function, con *Contract, args []*Term, pre, post *State, results []*Term) *SpecEnv {
	env := &SpecEnv{fx: fx, pkg: con.Pkg, vars: map[string]specVal{}, st: post, old: pre, where: "contract of " + fn.Name()}
	if fx.callBindings != nil {
		env.fvs = map[string]fvBinding{}
		for i, fv := range fn.FreeVars {
			if i < len(fx.callBindings) {
				env.fvs[fv.Name()] = fvBinding{fx.callBindings[i], fv.Type().(*types.Pointer).Elem()}
			}
		}
	}
	if con.Pkg == "" && fn.Pkg != nil {
		env.pkg = fn.Pkg.Pkg.Path()
	}
	for i, prm := range fn.Params {
		env.vars[prm.Name()] = specVal{args[i], prm.Type()}
	}
	if results != nil {
		names := resultNames(fn.Signature)
		for i, r := range results {
			env.vars[names[i]] = specVal{r, fn.Signature.Results().At(i).Type()}
			if len(results) == 1 {
				env.vars["result"] = env.vars[names[i]]
			} else {
				env.vars[fmt.Sprintf("result%d", i)] = env.vars[names[i]] // positional alias for named results
			}
		}
	}
	return env
}

func (fx *FnExec) applyContract(st *State, fn *ssa.Function, con *Contract, args []*Term, p token.Pos) []*Term {
	if con.Trusted {
		fx.trusted("assumed contract: " + fn.String())
	}
	pre := st.clone()
	envPre := fx.contractEnv(fn, con, args, pre, pre, nil)
	envPre.old = nil
	for i, r := range con.Common.Requires {
		if r.Assumed {
			// `assumed requires`: the arguments are grammar-shaped (what the external parser builds, A4); not an
			// obligation of the caller, an assumption listed in its evidence
			fx.trusted("grammar-shaped arguments of " + fn.String() + " (assumed at its call sites, A4): requires " + r.Text)
			continue
		}
		fx.oblig(st, "call-pre", fmt.Sprintf("%s.%d", fn.Name(), i), p, envPre.boolExpr(r.Expr))
	}
	// allocation may advance
	fx.advanceAlloc(st)
	var res []*Term
	sig := fn.Signature
	for i := 0; i < sig.Results().Len(); i++ {
		rt := sig.Results().At(i).Type()
		v := fx.c.Fresh("res_"+fn.Name(), fx.e.sortOf(rt))
		fx.assumeType(st, v, rt)
		res = append(res, v)
	}
	if con.Common.AssignsAny || anyBehAssignsAny(con) {
		// the callee may change any memory
		if r := fx.root(); true {
			if r.opaqueUsed == nil {
				r.opaqueUsed = map[string]bool{}
			}
			r.opaqueUsed[fn.String()+" (assigns anything)"] = true
		}
		fx.havocHeap(st)
	}
	// frame: havoc assigns (which may name the results, e.g. ghost state of a fresh object)
	envAssign := fx.contractEnv(fn, con, args, pre, pre, res)
	locs := fx.havocAssigns(st, envAssign, con.Common.Assigns, fn, p)
	envPost := fx.contractEnv(fn, con, args, pre, st, res)
	for _, en := range con.Common.Ensures {
		if en.Assumed {
			fx.trusted("assumed clause of " + fn.String() + " (not verified against the body): ensures " + en.Text)
		}
		fx.c.Assume(Implies(st.guard, envPost.boolExpr(en.Expr)))
	}
	// the callee's frame must lie within the caller's (freshness of results is known by now)
	for _, l := range locs {
		fx.calleeFrame(st, l, p)
	}
	for _, b := range con.Behs {
		if len(b.Ghosts) > 0 {
			fx.instantiateBeh(st, fn, con, b, envPre, envPost)
			continue
		}
		var rq, en []*Term
		for _, r := range b.Requires {
			rq = append(rq, envPre.boolExpr(r.Expr))
		}
		for _, r := range b.Ensures {
			en = append(en, envPost.boolExpr(r.Expr))
		}
		fx.c.Assume(Implies(st.guard, Implies(And(rq...), And(en...))))
	}
	return res
}

func (fx *FnExec) havocAssigns(st *State, envPre *SpecEnv, assigns []*Clause, fn *ssa.Function, p token.Pos) (locs []*assignLoc) {
	for _, a := range assigns {
		if a.Expr.Kind == "ident" && a.Expr.Name == "caches" {
			// assigns caches: the lazily filled Typ / Successors fields (of any object) may be written
			locs = append(locs, &assignLoc{whole: "caches"})
			fx.opaqueTargets = []*ssa.Function{}
			fx.observerHavoc(st)
			continue
		}
		loc := envPre.assignLoc(a.Expr)
		locs = append(locs, loc)
		switch {
		case loc.whole != "" && loc.si != nil:
			s := ArrSort(SInt, fx.fieldSort(loc.si, loc.fidx))
			st.heap[loc.whole] = fx.c.Fresh("hv_"+loc.whole, s)
		case loc.whole != "" && loc.refKind == "ghost":
			old := fx.heapGet(st, loc.whole, loc.gsort)
			fx.heapSet(st, loc.whole, Store(old, loc.ref, fx.c.Fresh("hvg", loc.gsort.elemSort())))
		case loc.whole != "":
			// ghost component
			st.heap[loc.whole] = fx.c.Fresh("hv_"+loc.whole, loc.gsort)
		case loc.si != nil:
			ft := loc.si.st.Field(loc.fidx).Type()
			v := fx.c.Fresh("hvf_"+loc.si.st.Field(loc.fidx).Name(), fx.e.sortOf(ft))
			fx.assumeType(st, v, ft)
			fx.writeField(st, loc.obj, loc.si, loc.fidx, v)
		case loc.refKind == "pcell" && loc.ptype != nil:
			hn, hs := fx.pheapName(loc.ptype)
			v := fx.c.Fresh("hvp", fx.e.sortOf(loc.ptype))
			fx.assumeType(st, v, loc.ptype)
			fx.heapSet(st, hn, Store(fx.heapGet(st, hn, hs), loc.ref, v))
		case loc.refKind == "map" && loc.ptype != nil:
			// the contents of the map may change
			dn, vn, ds, vs := fx.mapHeapNames(loc.ptype.Underlying().(*types.Map))
			d := fx.heapGet(st, dn, ds)
			fx.heapSet(st, dn, Store(d, loc.ref, fx.c.Fresh("hvmd", ds.elemSort())))
			vv := fx.heapGet(st, vn, vs)
			fx.heapSet(st, vn, Store(vv, loc.ref, fx.c.Fresh("hvmv", vs.elemSort())))
		case loc.refKind == "elem" && loc.ptype != nil:
			// the whole backing array of the slice may change
			hn, hs := fx.elemHeapName(loc.ptype)
			fx.heapSet(st, hn, Store(fx.heapGet(st, hn, hs), loc.ref, fx.c.Fresh("hve", hs.elemSort())))
		default:
			fx.fail("unsupported assigns location in contract of %s", fn.Name())
		}
	}
	return locs
}

// instantiateBeh: a behaviour of the callee with ghost parameters is available to
// the caller for the ghost arguments named by an `instantiate Callee.beh(args)`
// clause of the unit under verification (arguments evaluated in its entry state).
func (fx *FnExec) instantiateBeh(st *State, fn *ssa.Function, con *Contract, b *Behaviour, envPre, envPost *SpecEnv) {
	top := fx.root()
	if top.beh == nil {
		return
	}
	want := fn.Name() + "." + b.Name
	for _, ic := range top.beh.Insts {
		if ic.Expr.Name != want || len(ic.Expr.Args) != len(b.Ghosts) {
			continue
		}
		tenv := top.specEnvEntry()
		pre, post := *envPre, *envPost
		pre.vars = map[string]specVal{}
		post.vars = map[string]specVal{}
		for k, v := range envPre.vars {
			pre.vars[k] = v
		}
		for k, v := range envPost.vars {
			post.vars[k] = v
		}
		for i, g := range b.Ghosts {
			gt, err := fx.e.resolveType(con.Pkg, g.Type)
			if err != nil {
				fx.fail("instantiate %s: %v", want, err)
			}
			v := tenv.expr(ic.Expr.Args[i])
			pre.vars[g.Name] = specVal{v.t, gt}
			post.vars[g.Name] = specVal{v.t, gt}
		}
		var rq, en []*Term
		for _, r := range b.Requires {
			rq = append(rq, pre.boolExpr(r.Expr))
		}
		for _, r := range b.Ensures {
			en = append(en, post.boolExpr(r.Expr))
		}
		fx.c.Assume(Implies(st.guard, Implies(And(rq...), And(en...))))
	}
}

// calleeFrame: what a callee's contract allows it to assign must lie within the
// assigns clause of the function under verification (or in memory allocated by it).
func (fx *FnExec) calleeFrame(st *State, loc *assignLoc, p token.Pos) {
	if !fx.checkAssigns || loc == nil {
		return
	}
	top := fx.root()
	if top.beh == nil || top.beh.AssignsAny {
		return
	}
	env := top.specEnvEntry()
	var allowed []*Term
	what := loc.whole
	switch {
	case loc.whole == "caches":
	case loc.whole != "" && loc.si != nil:
	case loc.whole != "":
		if loc.ref != nil {
			// ghost state of an object allocated in this call is invisible to the caller
			what += "[key]"
			allowed = append(allowed, fx.isFresh(loc.ref))
		}
	case loc.si != nil:
		allowed = append(allowed, fx.isFresh(loc.obj))
		what = fieldHeapName(loc.si, loc.fidx)
	case loc.refKind == "pcell":
		allowed = append(allowed, fx.isFresh(loc.ref))
		what = "cell"
	case loc.refKind == "map":
		allowed = append(allowed, fx.isFresh(loc.ref))
		what = "map"
	case loc.refKind == "elem":
		// a fresh backing array, or none at all (nil slice)
		allowed = append(allowed, fx.isFresh(loc.ref), Eq(loc.ref, IntLit(0)))
		if loc.slc != nil {
			allowed = append(allowed, Eq(SlcCap(loc.slc), IntLit(0)))
		}
		what = "elems"
	default:
		return
	}
	for _, a := range top.beh.Assigns {
		if a.Expr.Kind == "ident" && a.Expr.Name == "caches" {
			if loc.whole == "caches" || (loc.si != nil && cacheFieldName(loc.si.st.Field(loc.fidx).Name())) {
				allowed = append(allowed, True)
			}
			continue
		}
		al := env.assignLoc(a.Expr)
		if al == nil {
			continue
		}
		switch {
		case loc.whole == "caches":
		case loc.whole != "" && loc.si != nil:
			if al.whole == loc.whole {
				allowed = append(allowed, True)
			}
		case loc.whole != "":
			if al.whole == loc.whole {
				if al.ref == nil {
					allowed = append(allowed, True)
				} else if loc.ref != nil {
					allowed = append(allowed, Eq(al.ref, loc.ref))
				}
			}
		case loc.si != nil:
			if al.whole != "" && al.whole == fieldHeapName(loc.si, loc.fidx) {
				allowed = append(allowed, True)
			}
			if al.whole == "" && al.si != nil && al.si.id == loc.si.id && al.fidx == loc.fidx {
				allowed = append(allowed, Eq(al.obj, loc.obj))
			}
		case loc.refKind == "pcell":
			if al.refKind == "pcell" && al.ref != nil {
				allowed = append(allowed, Eq(al.ref, loc.ref))
			}
		case loc.refKind == "elem":
			if al.refKind == "elem" && al.ref != nil {
				allowed = append(allowed, Eq(al.ref, loc.ref))
			}
		case loc.refKind == "map":
			if al.refKind == "map" && al.ref != nil {
				allowed = append(allowed, Eq(al.ref, loc.ref))
			}
		}
	}
	fx.oblig(st, "assigns", "callee:"+what, p, Or(allowed...))
}

func cacheFieldName(n string) bool { return n == "Typ" || n == "Successors" }

// ---------------------------------------------------------------------------
// interface method calls

func ifaceKey(cc *ssa.CallCommon) string {
	it := cc.Value.Type()
	if n, ok := it.(*types.Named); ok && n.Obj().Pkg() != nil {
		return n.Obj().Pkg().Path() + "." + n.Obj().Name() + "." + cc.Method.Name()
	} else if n, ok := it.(*types.Named); ok {
		return n.Obj().Name() + "." + cc.Method.Name() // error.Error
	}
	return "?." + cc.Method.Name()
}

func (fx *FnExec) ifaceContract(cc *ssa.CallCommon) *Contract {
	if con := fx.e.icons[ifaceKey(cc)]; con != nil {
		return con
	}
	// method declared in an embedded interface
	if m := cc.Method; m != nil && m.Pkg() != nil {
		if recvT := m.Type().(*types.Signature).Recv(); recvT != nil {
			if n, ok := recvT.Type().(*types.Named); ok {
				k2 := n.Obj().Pkg().Path() + "." + n.Obj().Name() + "." + m.Name()
				if con := fx.e.icons[k2]; con != nil {
					return con
				}
			}
		}
	}
	return nil
}

func (fx *FnExec) invoke(st *State, cc *ssa.CallCommon, recv *Term, args []*Term, p token.Pos) []*Term {
	fx.oblig(st, "nil-deref", "invoke", p, Neq(IfcTag(recv), IntLit(0)))
	if con := fx.ifaceContract(cc); con != nil {
		return fx.applyIfaceContract(st, con, cc, recv, args, p)
	}
	if n, ok := cc.Value.Type().(*types.Named); ok && fx.e.isPurePkg(n.Obj().Pkg()) {
		return fx.pureApply(st, "iface "+ifaceKey(cc), cc.Signature(), recv, args, true)
	}
	fx.opaqueTargets = fx.e.dynamicTargets(cc)
	if len(fx.opaqueTargets) == 0 {
		fx.opaqueTargets = nil
	}
	return fx.opaqueCall(st, cc.Signature(), "dynamic "+ifaceKey(cc))
}

func (fx *FnExec) applyIfaceContract(st *State, con *Contract, cc *ssa.CallCommon, recv *Term, args []*Term, p token.Pos) []*Term {
	sig := cc.Signature()
	pre := st.clone()
	mk := func(post *State, results []*Term) *SpecEnv {
		env := &SpecEnv{fx: fx, pkg: con.Pkg, vars: map[string]specVal{}, st: post, old: pre, where: "interface contract " + con.Key}
		env.vars["self"] = specVal{recv, cc.Value.Type()}
		for i := 0; i < sig.Params().Len(); i++ {
			nm := sig.Params().At(i).Name()
			if nm == "" {
				nm = fmt.Sprintf("arg%d", i)
			}
			env.vars[nm] = specVal{args[i], sig.Params().At(i).Type()}
			env.vars[fmt.Sprintf("arg%d", i)] = env.vars[nm]
		}
		if results != nil {
			names := resultNames(sig)
			for i, r := range results {
				env.vars[names[i]] = specVal{r, sig.Results().At(i).Type()}
				if len(results) == 1 {
					env.vars["result"] = env.vars[names[i]]
				}
			}
		}
		return env
	}
	envPre := mk(pre, nil)
	envPre.old = nil
	for i, r := range con.Common.Requires {
		fx.oblig(st, "call-pre", fmt.Sprintf("%s.%d", cc.Method.Name(), i), p, envPre.boolExpr(r.Expr))
	}
	locs := fx.havocAssigns(st, envPre, con.Common.Assigns, nil, p)
	var res []*Term
	for i := 0; i < sig.Results().Len(); i++ {
		rt := sig.Results().At(i).Type()
		v := fx.c.Fresh("res_"+cc.Method.Name(), fx.e.sortOf(rt))
		fx.assumeType(st, v, rt)
		res = append(res, v)
	}
	envPost := mk(st, res)
	for _, en := range con.Common.Ensures {
		fx.c.Assume(Implies(st.guard, envPost.boolExpr(en.Expr)))
	}
	for _, l := range locs {
		fx.calleeFrame(st, l, p)
	}
	return res
}

// ---------------------------------------------------------------------------
// builtins

func (fx *FnExec) builtin(st *State, b *ssa.Builtin, cc *ssa.CallCommon, args []*Term, p token.Pos) []*Term {
	switch b.Name() {
	case "len":
		t := cc.Args[0].Type()
		switch u := t.Underlying().(type) {
		case *types.Basic:
			return []*Term{StrLen(args[0])}
		case *types.Slice:
			return []*Term{SlcLen(args[0])}
		case *types.Array:
			return []*Term{IntLit(u.Len())}
		case *types.Map:
			// len(m): an uninterpreted non-negative function of the domain; 0 for the empty / nil map is not needed by any contract so far
			dn, _, ds, _ := fx.mapHeapNames(u)
			dom := Select(fx.heapGet(st, dn, ds), args[0])
			name := "maplen_" + sanitize(string(dom.S))
			fx.c.DeclareFun(name, []Sort{dom.S}, SInt)
			r := App(name, SInt, dom)
			fx.c.Assume(Implies(st.guard, Ge(r, IntLit(0))))
			return []*Term{r}
		case *types.Pointer:
			if a, ok := u.Elem().Underlying().(*types.Array); ok {
				return []*Term{IntLit(a.Len())}
			}
		}
		fx.fail("len of %s", t)
	case "cap":
		return []*Term{SlcCap(args[0])}
	case "append":
		return []*Term{fx.doAppend(st, cc, args, p)}
	case "copy":
		return []*Term{fx.doCopy(st, cc, args, p)}
	case "delete":
		mt := cc.Args[0].Type().Underlying().(*types.Map)
		dn, _, ds, _ := fx.mapHeapNames(mt)
		d := fx.heapGet(st, dn, ds)
		k := fx.mapKey(args[1], mt.Key())
		fx.heapSet(st, dn, Store(d, args[0], Store(Select(d, args[0]), k, False)))
		return nil
	case "ssa:wrapnilchk":
		fx.oblig(st, "nil-deref", "wrapnilchk", p, Neq(args[0], IntLit(0)))
		return []*Term{args[0]}
	case "ssa:deferstack":
		return []*Term{IntLit(0)}
	case "print", "println":
		return nil
	case "min", "max":
		r := args[0]
		for _, a := range args[1:] {
			if b.Name() == "min" {
				r = Ite(Le(a, r), a, r)
			} else {
				r = Ite(Ge(a, r), a, r)
			}
		}
		return []*Term{r}
	}
	fx.fail("builtin %s", b.Name())
	return nil
}

// doAppend: append(s, elems...) where the variadic part is a slice value.
func (fx *FnExec) doAppend(st *State, cc *ssa.CallCommon, args []*Term, p token.Pos) *Term {
	s, extra := args[0], args[1]
	slT := cc.Args[0].Type().Underlying().(*types.Slice)
	name, hs := fx.elemHeapName(slT.Elem())
	if isStringT(cc.Args[1].Type()) {
		fx.fail("append(bytes, string...)")
	}
	h := fx.heapGet(st, name, hs)
	n1, n2 := SlcLen(s), SlcLen(extra)
	// model: always reallocate into a fresh backing array (sound for code that
	// does not rely on aliasing between the old and the new slice)
	fx.trusted("append always yields a fresh backing array (aliasing after append not relied upon)")
	r := fx.newRef(st)
	es := fx.e.sortOf(slT.Elem())
	narr := fx.c.Fresh("app", ArrSort(SInt, es))
	k := Var("k!a", SInt)
	sel := App("select", es, narr, k)
	fx.c.Assume(Implies(st.guard, And(
		Forall([]*Term{k}, Implies(And(Le(IntLit(0), k), Lt(k, n1)), Eq(sel, fx.elemAt(h, s, k))), sel),
		Forall([]*Term{k}, Implies(And(Le(n1, k), Lt(k, Add(n1, n2))), Eq(sel, fx.elemAt(h, extra, Sub(k, n1)))), sel))))
	// eager instantiation for literal-length varargs
	if n2.lit != nil && n2.lit.IsInt64() && n2.lit.Int64() <= 16 {
		for i := int64(0); i < n2.lit.Int64(); i++ {
			fx.c.Assume(Implies(st.guard, Eq(App("select", es, narr, Add(n1, IntLit(i))), fx.elemAt(h, extra, IntLit(i)))))
		}
	}
	fx.heapSet(st, name, Store(h, r, narr))
	cp := fx.c.Fresh("cap", SInt)
	fx.c.Assume(Implies(st.guard, Ge(cp, Add(n1, n2))))
	return MkSlc(r, IntLit(0), Add(n1, n2), cp)
}

// doCopy: copy(dst, src) for two slices: the first min(len(dst), len(src)) elements of dst become those of src (read
// from the heap before the copy: overlapping slices behave like memmove, as in Go); everything else in dst's backing
// array stays. A store into dst's backing array as far as the frame is concerned.
func (fx *FnExec) doCopy(st *State, cc *ssa.CallCommon, args []*Term, p token.Pos) *Term {
	dst, src := args[0], args[1]
	slT, ok := cc.Args[0].Type().Underlying().(*types.Slice)
	if !ok || isStringT(cc.Args[1].Type()) {
		fx.fail("copy unsupported (string source)")
	}
	name, hs := fx.elemHeapName(slT.Elem())
	if fx.e.pureElemHeaps[name] {
		fx.fail("copy into a slice of syntax-tree nodes (%s): such slices are assumed never to be written (A4)", name)
	}
	h := fx.heapGet(st, name, hs)
	n := Ite(Le(SlcLen(dst), SlcLen(src)), SlcLen(dst), SlcLen(src))
	base, off := SlcBase(dst), SlcOff(dst)
	fx.assignCheckRef(st, base, "elem", p)
	es := fx.e.sortOf(slT.Elem())
	narr := fx.c.Fresh("cpy", ArrSort(SInt, es))
	k := Var("k!c", SInt)
	sel := App("select", es, narr, k)
	in := And(Le(off, k), Lt(k, Add(off, n)))
	fx.c.Assume(Implies(st.guard, Forall([]*Term{k}, Eq(sel, Ite(in, fx.elemAt(h, src, Sub(k, off)), Select(Select(h, base), k))), sel)))
	fx.heapSet(st, name, Store(h, base, narr))
	return n
}

// bytesToStr returns the string holding the current contents of a byte slice.
func (fx *FnExec) bytesToStr(st *State, s *Term) *Term {
	name, hs := fx.elemHeapName(tByte)
	h := fx.heapGet(st, name, hs)
	return MkStr(Shl(Select(h, SlcBase(s)), SlcOff(s)), SlcLen(s))
}

func (fx *FnExec) doMakeSlice(st *State, x *ssa.MakeSlice) {
	n := fx.val(st, x.Len)
	cp := fx.val(st, x.Cap)
	fx.oblig(st, "bounds", "makeslice", x.Pos(), And(Le(IntLit(0), n), Le(n, cp)))
	et := x.Type().Underlying().(*types.Slice).Elem()
	name, hs := fx.elemHeapName(et)
	r := fx.newRef(st)
	es := fx.e.sortOf(et)
	zarr := App(fmt.Sprintf("((as const %s) %s)", ArrSort(SInt, es), fx.e.zero(et)), ArrSort(SInt, es))
	fx.heapSet(st, name, Store(fx.heapGet(st, name, hs), r, zarr))
	fx.vals[x] = MkSlc(r, IntLit(0), n, cp)
}

func (fx *FnExec) doConvert(st *State, x *ssa.Convert) {
	from, to := x.X.Type(), x.Type()
	v := fx.val(st, x.X)
	fu, tu := from.Underlying(), to.Underlying()
	switch {
	case isIntT(from) && isIntT(to):
		flo, fhi, _ := intRange(from)
		tlo, thi, ok := intRange(to)
		if !ok || flo == nil {
			fx.vals[x] = v
			return
		}
		// widening conversions are the identity; narrowing wraps
		if flo.lit != nil && tlo.lit != nil && flo.lit.Cmp(tlo.lit) >= 0 && fhi.lit.Cmp(thi.lit) <= 0 {
			fx.vals[x] = v
			return
		}
		if v.lit != nil && v.lit.Cmp(tlo.lit) >= 0 && v.lit.Cmp(thi.lit) <= 0 {
			fx.vals[x] = v
			return
		}
		bits := int64(typeBits(to))
		var wrapped *Term
		if isUnsigned(to) {
			wrapped = Mod(v, pow2(bits))
		} else {
			m := Mod(Add(v, pow2(bits-1)), pow2(bits))
			wrapped = Sub(m, pow2(bits-1))
		}
		// values already in range are unchanged (keeps the common case linear)
		fx.vals[x] = Ite(And(Le(tlo, v), Le(v, thi)), v, wrapped)
	case isStringT(to):
		if sl, ok := fu.(*types.Slice); ok {
			if b, ok := sl.Elem().Underlying().(*types.Basic); ok && b.Kind() == types.Uint8 {
				fx.vals[x] = fx.bytesToStr(st, v)
				return
			}
		}
		if isIntT(from) {
			// string(rune): opaque
			fx.c.DeclareFun("runestr", []Sort{SInt}, SStr)
			fx.vals[x] = App("runestr", SStr, v)
			return
		}
		fx.fail("convert %s to string", from)
	case isStringT(from):
		if sl, ok := tu.(*types.Slice); ok {
			if b, ok := sl.Elem().Underlying().(*types.Basic); ok && b.Kind() == types.Uint8 {
				// []byte(s): fresh backing array with the bytes of s
				name, hs := fx.elemHeapName(tByte)
				r := fx.newRef(st)
				var arr *Term
				arr = StrArr(v)
				fx.heapSet(st, name, Store(fx.heapGet(st, name, hs), r, arr))
				fx.vals[x] = MkSlc(r, IntLit(0), StrLen(v), StrLen(v))
				return
			}
		}
		fx.fail("convert string to %s", to)
	default:
		// float<->int and others: opaque
		if fx.e.sortOf(from) == fx.e.sortOf(to) {
			name := "conv_" + typeID(from) + "_" + typeID(to)
			fx.c.DeclareFun(name, []Sort{v.S}, v.S)
			fx.vals[x] = App(name, v.S, v)
			return
		}
		fx.fail("convert %s to %s", from, to)
	}
}

// ---------------------------------------------------------------------------
// interfaces

func (fx *FnExec) makeIface(v *Term, t types.Type) *Term {
	tag := IntLit(int64(fx.e.typeTag(t)))
	switch t.Underlying().(type) {
	case *types.Pointer, *types.Map, *types.Signature:
		return MkIfc(tag, v)
	case *types.Interface:
		return v
	}
	if v.S == SInt {
		return MkIfc(tag, v)
	}
	if v.S == SBool {
		return MkIfc(tag, Ite(v, IntLit(1), IntLit(0)))
	}
	// boxed value
	box := "box_" + sanitize(string(v.S))
	unbox := "unbox_" + sanitize(string(v.S))
	fx.c.DeclareFun(box, []Sort{v.S}, SInt)
	fx.c.DeclareFun(unbox, []Sort{SInt}, v.S)
	b := App(box, SInt, v)
	fx.c.defs = append(fx.c.defs, Eq(App(unbox, v.S, b), v))
	return MkIfc(tag, b)
}

func (fx *FnExec) unboxIface(v *Term, t types.Type) *Term {
	s := fx.e.sortOf(t)
	switch t.Underlying().(type) {
	case *types.Pointer, *types.Map, *types.Signature:
		return IfcPtr(v)
	}
	if s == SInt {
		return IfcPtr(v)
	}
	if s == SBool {
		return Eq(IfcPtr(v), IntLit(1))
	}
	unbox := "unbox_" + sanitize(string(s))
	box := "box_" + sanitize(string(s))
	fx.c.DeclareFun(box, []Sort{s}, SInt)
	fx.c.DeclareFun(unbox, []Sort{SInt}, s)
	return App(unbox, s, IfcPtr(v))
}

// implementers returns the tags of all known concrete types implementing iface.
func (fx *FnExec) implementsCond(v *Term, iface *types.Interface) *Term {
	// one defined predicate per interface over the dynamic type tag: the set of
	// named types of the program (and their pointers) that implement it
	h := 0
	for _, b := range []byte(iface.String()) {
		h = (h*131 + int(b)) % 1000000007
	}
	name := fmt.Sprintf("impl_%d_%d", iface.NumMethods(), h)
	if !fx.c.HasDecl(name) {
		tv := Var("t!i", SInt)
		var conds []*Term
		seen := map[string]bool{}
		for _, p := range fx.e.prog.AllPackages() {
			for _, m := range p.Members {
				tn, ok := m.(*ssa.Type)
				if !ok {
					continue
				}
				for _, T := range []types.Type{tn.Type(), types.NewPointer(tn.Type())} {
					if _, isI := T.Underlying().(*types.Interface); isI {
						continue
					}
					if types.Implements(T, iface) {
						k := types.TypeString(T, nil)
						if !seen[k] {
							seen[k] = true
							conds = append(conds, Eq(tv, IntLit(int64(fx.e.typeTag(T)))))
						}
					}
				}
			}
		}
		sort.Slice(conds, func(i, j int) bool { return conds[i].String() < conds[j].String() })
		fx.c.DefineFun(name, []*Term{tv}, SBool, Or(conds...), false)
	}
	return App(name, SBool, IfcTag(v))
}

func (fx *FnExec) doTypeAssert(st *State, x *ssa.TypeAssert) {
	v := fx.val(st, x.X)
	var ok, res *Term
	if it, isI := x.AssertedType.Underlying().(*types.Interface); isI {
		if it.NumMethods() == 0 {
			ok = Neq(IfcTag(v), IntLit(0))
		} else {
			ok = fx.c.Name("impl", fx.implementsCond(v, it))
		}
		res = v
	} else {
		ok = Eq(IfcTag(v), IntLit(int64(fx.e.typeTag(x.AssertedType))))
		res = fx.unboxIface(v, x.AssertedType)
	}
	if x.CommaOk {
		zero := fx.e.zero(x.AssertedType)
		fx.tuples[x] = []*Term{Ite(ok, res, zero), ok}
		return
	}
	fx.oblig(st, "type-assert", "", x.Pos(), ok)
	fx.vals[x] = res
}

// ---------------------------------------------------------------------------
// maps

func (fx *FnExec) mapHeapNames(mt *types.Map) (dn, vn string, ds, vs Sort) {
	ks := fx.mapKeySort(mt.Key())
	es := fx.e.sortOf(mt.Elem())
	// one component per map type (maps of different key or element types never share memory)
	id := typeID(mt.Key()) + "_" + typeID(mt.Elem())
	if len(id) > 60 {
		h := 0
		for _, c := range []byte(id) {
			h = (h*131 + int(c)) % 1000000007
		}
		id = fmt.Sprintf("%s_%d", id[:48], h)
	}
	return "Md_" + id, "Mv_" + id, ArrSort(SInt, ArrSort(ks, SBool)), ArrSort(SInt, ArrSort(ks, es))
}

// map keys: strings (and structs containing strings) are abstracted by an
// injective-up-to-equality key function.
func (fx *FnExec) mapKeySort(t types.Type) Sort {
	s := fx.e.sortOf(t)
	if fx.keyNeedsAbstraction(t) {
		return SInt
	}
	return s
}

func (fx *FnExec) keyNeedsAbstraction(t types.Type) bool {
	switch u := t.Underlying().(type) {
	case *types.Basic:
		return u.Info()&types.IsString != 0
	case *types.Struct:
		for i := 0; i < u.NumFields(); i++ {
			if fx.keyNeedsAbstraction(u.Field(i).Type()) {
				return true
			}
		}
	}
	return false
}

var keyTerms = map[string][]*Term{}

func (fx *FnExec) mapKey(k *Term, t types.Type) *Term {
	if !fx.keyNeedsAbstraction(t) {
		return k
	}
	fn := "key_" + typeID(t)
	if !fx.c.HasDecl(fn) {
		fx.c.DeclareFun(fn, []Sort{k.S}, SInt)
		// keys are equal exactly when the key values are equal (Go's == on the key type)
		a, b := Var("a!k", k.S), Var("b!k", k.S)
		ka, kb := App(fn, SInt, a), App(fn, SInt, b)
		fx.c.Axiom("map keys of type "+t.String()+" compare by value", Forall([]*Term{a, b}, Eq(Eq(ka, kb), fx.valEq(a, b, t)), ka, kb))
	}
	kt := App(fn, SInt, k)
	// pairwise: key(a) == key(b) <=> a == b (value equality), instantiated eagerly for the ground key terms seen
	ks := kt.String()
	if specBodyDepth > 0 || strings.Contains(ks, "!q") || strings.Contains(ks, "!k") || strings.Contains(ks, "!c") {
		return kt
	}
	for _, o := range keyTerms[fn] {
		if o.String() == ks {
			return kt
		}
	}
	for _, o := range keyTerms[fn] {
		fx.c.defs = append(fx.c.defs, Eq(Eq(kt, o), fx.valEq(k, o.Args[0], t)))
	}
	keyTerms[fn] = append(keyTerms[fn], kt)
	return kt
}

func (fx *FnExec) doMakeMap(st *State, x *ssa.MakeMap) {
	mt := x.Type().Underlying().(*types.Map)
	dn, _, ds, _ := fx.mapHeapNames(mt)
	r := fx.newRef(st)
	ks := fx.mapKeySort(mt.Key())
	empty := App(fmt.Sprintf("((as const %s) false)", ArrSort(ks, SBool)), ArrSort(ks, SBool))
	fx.heapSet(st, dn, Store(fx.heapGet(st, dn, ds), r, empty))
	fx.vals[x] = r
}

func (fx *FnExec) doMapUpdate(st *State, x *ssa.MapUpdate) {
	mt := x.Map.Type().Underlying().(*types.Map)
	dn, vn, ds, vs := fx.mapHeapNames(mt)
	m := fx.val(st, x.Map)
	fx.oblig(st, "nil-map", "", x.Pos(), Neq(m, IntLit(0)))
	k := fx.mapKey(fx.val(st, x.Key), mt.Key())
	v := fx.val(st, x.Value)
	fx.assignCheckRef(st, m, "map", x.Pos())
	d := fx.heapGet(st, dn, ds)
	fx.heapSet(st, dn, Store(d, m, Store(Select(d, m), k, True)))
	vv := fx.heapGet(st, vn, vs)
	fx.heapSet(st, vn, Store(vv, m, Store(Select(vv, m), k, v)))
}

func (fx *FnExec) doLookup(st *State, x *ssa.Lookup) {
	if isStringT(x.X.Type()) {
		s := fx.val(st, x.X)
		idx := fx.val(st, x.Index)
		fx.oblig(st, "bounds", "strindex", x.Pos(), And(Le(IntLit(0), idx), Lt(idx, StrLen(s))))
		fx.vals[x] = StrAt(s, idx)
		return
	}
	mt := x.X.Type().Underlying().(*types.Map)
	dn, vn, ds, vs := fx.mapHeapNames(mt)
	m := fx.val(st, x.X)
	k := fx.mapKey(fx.val(st, x.Index), mt.Key())
	present := And(Neq(m, IntLit(0)), Select(Select(fx.heapGet(st, dn, ds), m), k))
	val := Ite(present, Select(Select(fx.heapGet(st, vn, vs), m), k), fx.e.zero(mt.Elem()))
	val = fx.c.Name("mv", val)
	if x.CommaOk {
		fx.tuples[x] = []*Term{val, present}
	} else {
		fx.vals[x] = val
	}
	fx.assumeType(st, val, mt.Elem())
}

// range over maps: arbitrary order, each key once (ghost visited set).
func (fx *FnExec) doRange(st *State, x *ssa.Range) {
	if isStringT(x.X.Type()) {
		fx.fail("range over string")
	}
	mt := x.X.Type().Underlying().(*types.Map)
	m := fx.val(st, x.X)
	it := fx.newRef(st)
	fx.vals[x] = it
	ks := fx.mapKeySort(mt.Key())
	name := "G_visited_" + sanitize(string(ks))
	hs := ArrSort(SInt, ArrSort(ks, SBool))
	empty := App(fmt.Sprintf("((as const %s) false)", ArrSort(ks, SBool)), ArrSort(ks, SBool))
	fx.heapSet(st, name, Store(fx.heapGet(st, name, hs), it, empty))
	if fx.mapIter == nil {
		fx.mapIter = map[ssa.Value]*mapIterInfo{}
	}
	fx.mapIter[x] = &mapIterInfo{m: m, kt: mt.Key(), vt: mt.Elem()}
}

func (fx *FnExec) doNext(st *State, x *ssa.Next) {
	if x.IsString {
		fx.fail("range over string")
	}
	mi := fx.mapIter[x.Iter]
	if mi == nil {
		fx.fail("Next on unknown iterator")
	}
	it := fx.val(st, x.Iter)
	mt := types.NewMap(mi.kt, mi.vt)
	dn, vn, ds, vs := fx.mapHeapNames(mt)
	ks := fx.mapKeySort(mi.kt)
	name := "G_visited_" + sanitize(string(ks))
	hs := ArrSort(SInt, ArrSort(ks, SBool))
	vis := Select(fx.heapGet(st, name, hs), it)
	dom := Select(fx.heapGet(st, dn, ds), mi.m)
	ok := fx.c.Fresh("next_ok", SBool)
	k := fx.c.Fresh("next_k", ks)
	j := Var("j!n", ks)
	// ok  <=> some unvisited key remains; if ok then k is an unvisited key of the map
	fx.c.Assume(Implies(st.guard, And(
		Implies(ok, And(Select(dom, k), Not(Select(vis, k)))),
		Implies(Not(ok), Forall([]*Term{j}, Implies(App("select", SBool, dom, j), App("select", SBool, vis, j)))))))
	fx.heapSet(st, name, Store(fx.heapGet(st, name, hs), it, Ite(ok, Store(vis, k, True), vis)))
	val := Select(Select(fx.heapGet(st, vn, vs), mi.m), k)
	if fx.keyNeedsAbstraction(mi.kt) {
		// recover a concrete key value whose abstraction is k
		kv := fx.c.Fresh("next_key", fx.e.sortOf(mi.kt))
		fx.c.Assume(Implies(st.guard, Implies(ok, Eq(fx.mapKey(kv, mi.kt), k))))
		fx.assumeType(st, kv, mi.kt)
		fx.tuples[x] = []*Term{ok, kv, val}
	} else {
		fx.assumeType(st, k, mi.kt)
		fx.tuples[x] = []*Term{ok, k, val}
	}
	fx.assumeType(st, val, mi.vt)
}

// heapUnchanged: every heap component present in either state is equal.
func (fx *FnExec) heapUnchanged(old, cur *State) *Term {
	if old.epoch != cur.epoch {
		return False
	}
	names := map[string]Sort{}
	for k, v := range cur.heap {
		names[k] = v.S
	}
	var cs []*Term
	var ks []string
	for k := range names {
		if k == "alloc" || strings.HasPrefix(k, "G_") {
			continue
		}
		ks = append(ks, k)
	}
	sort.Strings(ks)
	for _, k := range ks {
		a := fx.heapGet(old, k, names[k])
		b := fx.heapGet(cur, k, names[k])
		if a.S == SInt || !strings.HasPrefix(string(a.S), "(Array") {
			cs = append(cs, Eq(a, b))
			continue
		}
		// compare on pre-existing objects only
		r := Var("r!h", a.S.keySort())
		cs = append(cs, Forall([]*Term{r}, Implies(Lt(r, fx.entryAlloc), Eq(App("select", a.S.elemSort(), a, r), App("select", a.S.elemSort(), b, r)))))
	}
	return And(cs...)
}

// callMods: heap components a call inside a loop may modify.
func (fx *FnExec) callMods(ci ssa.CallInstruction, ms *modSet) {
	cc := ci.Common()
	ms.heaps["alloc"] = SInt
	if cc.IsInvoke() {
		if con := fx.ifaceContract(cc); con != nil {
			for _, a := range con.Common.Assigns {
				if a.Expr.Kind == "ident" && a.Expr.Name == "caches" {
					ms.caches = true
					continue
				}
				// ghost state of the receiver: the whole ghost component may change
				if a.Expr.Kind == "call" && a.Expr.Name == "ghost" {
					if sf := fx.e.findSpec(con.Pkg, a.Expr.Args[0].String()); sf != nil && sf.Ghost {
						if rt, err := fx.e.resolveType(sf.Pkg, sf.Ret); err == nil {
							ms.heaps["G_"+sf.Name] = ArrSort(SInt, fx.e.sortOf(rt))
							ms.full["G_"+sf.Name] = true
							continue
						}
					}
				}
				ms.opaque = true // conservatively
			}
			return
		}
		if n, ok := cc.Value.Type().(*types.Named); ok && fx.e.isPurePkg(n.Obj().Pkg()) {
			return // interface of a pure package: no effect
		}
		if observerCallee("dynamic " + ifaceKey(cc)) {
			// same treatment as in the loop body (opaqueCall): caches, and IDs if a target can write them
			if ts := fx.e.dynamicTargets(cc); len(ts) > 0 && !fx.e.reachesIDWrites(ts) {
				ms.caches = true
			} else {
				ms.observer = true
			}
			return
		}
		ms.opaque = true
		return
	}
	switch callee := cc.Value.(type) {
	case *ssa.Builtin:
		switch callee.Name() {
		case "append":
			sl := cc.Args[0].Type().Underlying().(*types.Slice)
			n, s := fx.elemHeapName(sl.Elem())
			ms.heaps[n] = s
		case "delete":
			fx.mapMods(cc.Args[0].Type(), ms)
		}
	case *ssa.Function:
		fx.funcMods(callee, ms, 0)
	case *ssa.MakeClosure:
		fx.funcMods(callee.Fn.(*ssa.Function), ms, 0)
	default:
		// call through a function value: any closure defined in this function
		f := fx.fn
		for _, a := range f.AnonFuncs {
			fx.funcMods(a, ms, 0)
		}
		if f.Parent() != nil {
			for _, a := range f.Parent().AnonFuncs {
				fx.funcMods(a, ms, 0)
			}
		}
	}
}

// wouldBeOpaque mirrors staticCall's treatment of callees without a contract.
func (fx *FnExec) wouldBeOpaque(fn *ssa.Function) bool {
	if rc := fx.root().con; rc != nil && rc.Opaque["!"+fn.Name()] {
		return true
	}
	if con := fx.e.cons[fn]; con != nil {
		return false
	}
	if fx.pureFuncOf(fn) {
		return false
	}
	switch fn.String() {
	case "github.com/pkg/errors.Errorf", "github.com/pkg/errors.New", "errors.New", "fmt.Errorf", "github.com/pkg/errors.WithStack", "github.com/pkg/errors.Wrapf", "github.com/pkg/errors.Wrap", "fmt.Sprintf", "fmt.Sprint", "fmt.Sprintln":
		return false
	}
	if fn.Blocks == nil {
		return true
	}
	if fn.String() == "sort.Slice" {
		return true // inside a loop: everything may change (its effect is only modelled at top level)
	}
	if fx.inRepo(fn) || fn.Synthetic != "" {
		if rc := fx.root().con; rc != nil && rc.Opaque[fn.Name()] {
			return true
		}
		return hasLoop(fn) || len(fn.Blocks) > 40
	}
	for i := 0; i < fn.Signature.Params().Len(); i++ {
		switch fn.Signature.Params().At(i).Type().Underlying().(type) {
		case *types.Pointer, *types.Slice, *types.Map, *types.Interface, *types.Signature:
			return true
		}
	}
	return fn.Signature.Recv() != nil
}

func (fx *FnExec) funcMods(fn *ssa.Function, ms *modSet, depth int) {
	if con := fx.e.cons[fn]; con != nil && (con.Common.AssignsAny || anyBehAssignsAny(con)) {
		ms.opaque = true
		return
	}
	if fx.pureFuncOf(fn) {
		// no effect on the heap; a slice result is a fresh allocation
		for i := 0; i < fn.Signature.Results().Len(); i++ {
			if sl, ok := fn.Signature.Results().At(i).Type().Underlying().(*types.Slice); ok {
				n, s := fx.elemHeapName(sl.Elem())
				ms.heaps[n] = s
			}
		}
		return
	}
	if fx.wouldBeOpaque(fn) {
		if observerCallee(fn.String()) && (fx.inRepo(fn) || fn.Synthetic != "") {
			if fx.e.reachesIDWrites([]*ssa.Function{fn}) {
				ms.observer = true
			} else {
				ms.caches = true
			}
			return
		}
		ms.opaque = true
		return
	}
	if con := fx.e.cons[fn]; con != nil && !con.Inline {
		env := &SpecEnv{fx: fx, pkg: con.Pkg, vars: map[string]specVal{}, st: fx.entry, where: "assigns of " + fn.Name()}
		for _, p := range fn.Params {
			env.vars[p.Name()] = specVal{fx.c.Const("modp_"+sanitize(fn.Name())+"_"+p.Name()+"_"+sanitize(string(fx.e.sortOf(p.Type()))), fx.e.sortOf(p.Type())), p.Type()}
		}
		for _, a := range con.Common.Assigns {
			if a.Expr.Kind == "ident" && a.Expr.Name == "caches" {
				ms.caches = true
				continue
			}
			// a captured variable of the callee: the corresponding heap-allocated local of this function
			if a.Expr.Kind == "ident" {
				handled := false
				for _, fv := range fn.FreeVars {
					if fv.Name() != a.Expr.Name {
						continue
					}
					et := fv.Type().(*types.Pointer).Elem()
					hn, hs := fx.pheapName(et)
					ms.heaps[hn] = hs
					var cell *ssa.Alloc
					for _, b := range fx.fn.Blocks {
						for _, ins := range b.Instrs {
							if al, ok := ins.(*ssa.Alloc); ok && al.Heap && al.Comment == fv.Name() {
								cell = al
							}
						}
					}
					if cell != nil && ms.sites != nil {
						ms.sites[hn] = append(ms.sites[hn], cell)
					} else if ms.full != nil {
						ms.full[hn] = true
					}
					handled = true
				}
				if handled {
					continue
				}
			}
			loc := env.assignLoc(a.Expr)
			switch {
			case loc.si != nil:
				// the object is named in terms of the callee's parameters: any object may be meant
				h := fieldHeapName(loc.si, loc.fidx)
				ms.heaps[h] = ArrSort(SInt, fx.fieldSort(loc.si, loc.fidx))
				if ms.full != nil {
					ms.full[h] = true
				}
			case loc.whole == "caches":
				ms.caches = true
			case loc.whole != "":
				ms.heaps[loc.whole] = loc.gsort
				if ms.full != nil {
					ms.full[loc.whole] = true
				}
			case loc.refKind == "elem" && loc.ptype != nil:
				hn, hs := fx.elemHeapName(loc.ptype)
				ms.heaps[hn] = hs
				if ms.full != nil {
					ms.full[hn] = true
				}
			case loc.refKind == "map" && loc.ptype != nil:
				dn, vn, ds, vs := fx.mapHeapNames(loc.ptype.Underlying().(*types.Map))
				ms.heaps[dn], ms.heaps[vn] = ds, vs
				if ms.full != nil {
					ms.full[dn], ms.full[vn] = true, true
				}
			case loc.refKind == "pcell" && loc.ptype != nil:
				hn, hs := fx.pheapName(loc.ptype)
				ms.heaps[hn] = hs
				if ms.full != nil {
					ms.full[hn] = true
				}
			case loc.refKind == "pcell":
				ms.opaque = true
			}
		}
		return
	}
	if fn.Blocks == nil || depth > 6 {
		return
	}
	if !fx.inRepo(fn) && fn.Synthetic == "" {
		return
	}
	for _, b := range fn.Blocks {
		for _, ins := range b.Instrs {
			switch x := ins.(type) {
			case *ssa.Store:
				if a := fx.rootAlloc(x.Addr); a != nil && !a.Heap {
					continue
				}
				fx.addrMods(x.Addr, ms)
			case *ssa.Alloc:
				if x.Heap {
					fx.allocMods(x.Type().(*types.Pointer).Elem(), ms)
				}
			case *ssa.MapUpdate:
				fx.mapMods(x.Map.Type(), ms)
			case *ssa.MakeSlice:
				n, s := fx.elemHeapName(x.Type().Underlying().(*types.Slice).Elem())
				ms.heaps[n] = s
			case ssa.CallInstruction:
				cc := x.Common()
				if cc.IsInvoke() {
					fx.callMods(x, ms)
					continue
				}
				switch callee := cc.Value.(type) {
				case *ssa.Function:
					fx.funcMods(callee, ms, depth+1)
				case *ssa.MakeClosure:
					fx.funcMods(callee.Fn.(*ssa.Function), ms, depth+1)
				case *ssa.Builtin:
					if callee.Name() == "append" {
						sl := cc.Args[0].Type().Underlying().(*types.Slice)
						n, s := fx.elemHeapName(sl.Elem())
						ms.heaps[n] = s
					}
				}
			}
		}
	}
}

// ---------------------------------------------------------------------------
// opaque calls and private (unescaped) objects

// privateAllocs: heap allocations of this function whose address never leaves
// the function except as an argument of calls that have a contract.
func (fx *FnExec) privateAllocs() map[*ssa.Alloc]bool {
	out := map[*ssa.Alloc]bool{}
	for _, b := range fx.fn.Blocks {
		for _, ins := range b.Instrs {
			a, ok := ins.(*ssa.Alloc)
			if !ok || !a.Heap {
				continue
			}
			if _, isS := a.Type().(*types.Pointer).Elem().Underlying().(*types.Struct); !isS {
				continue
			}
			if !fx.escapes(a) {
				out[a] = true
			}
		}
	}
	return out
}

// leakers returns the instructions through which the object allocated by a may become reachable
// for code outside this activation (escapes); alwaysLeaks is set when nothing can be said.
func (fx *FnExec) leakers(a *ssa.Alloc) (out []ssa.Instruction, alwaysLeaks bool) {
	aliases := map[ssa.Value]bool{a: true}
	cells := map[*ssa.Alloc]bool{}
	for changed := true; changed; {
		changed = false
		for _, b := range fx.fn.Blocks {
			for _, ins := range b.Instrs {
				switch x := ins.(type) {
				case *ssa.Store:
					if aliases[x.Val] {
						if c, ok := x.Addr.(*ssa.Alloc); ok && !c.Heap {
							if !cells[c] {
								cells[c] = true
								changed = true
							}
						}
					}
				case *ssa.UnOp:
					if x.Op == token.MUL {
						if c, ok := x.X.(*ssa.Alloc); ok && cells[c] && !aliases[x] {
							aliases[x] = true
							changed = true
						}
					}
				}
			}
		}
	}
	for v := range aliases {
		refs := v.Referrers()
		if refs == nil {
			return nil, true
		}
		for _, r := range *refs {
			switch x := r.(type) {
			case *ssa.FieldAddr:
				if x.X != v {
					out = append(out, r)
					continue
				}
				// address of a field taken: conservative unless only used for load/store
				if fr := x.Referrers(); fr != nil {
					for _, u := range *fr {
						switch y := u.(type) {
						case *ssa.Store:
							if y.Addr != x {
								out = append(out, u)
							}
						case *ssa.UnOp:
						case *ssa.DebugRef:
						default:
							out = append(out, u)
						}
					}
				}
			case *ssa.Store:
				if x.Val == v {
					c, ok := x.Addr.(*ssa.Alloc)
					if !ok || c.Heap || !cells[c] {
						out = append(out, r)
					}
				}
			case *ssa.UnOp, *ssa.DebugRef:
			case ssa.CallInstruction:
				cc := x.Common()
				if cc.IsInvoke() {
					out = append(out, r)
					continue
				}
				callee, ok := cc.Value.(*ssa.Function)
				if !ok {
					out = append(out, r)
					continue
				}
				if con := fx.e.cons[callee]; con == nil || con.Inline {
					out = append(out, r)
				}
			case *ssa.BinOp: // comparison with nil
			default:
				out = append(out, r)
			}
		}
	}
	return out, false
}

func (fx *FnExec) escapes(a *ssa.Alloc) bool {
	l, always := fx.leakers(a)
	return always || len(l) > 0
}

// notYetLeaked: struct objects allocated earlier in the block of the instruction being executed
// that no instruction executed so far has made reachable from outside (e.g. `&T{F: g()}`: the
// object exists while g runs, but g cannot reach it).
func (fx *FnExec) notYetLeaked() []*Term {
	cur := fx.curInstr
	if cur == nil || cur.Block() == nil {
		return nil
	}
	blk := cur.Block()
	idx := map[ssa.Instruction]int{}
	for i, ins := range blk.Instrs {
		idx[ins] = i
	}
	ci, ok := idx[cur]
	if !ok {
		return nil
	}
	var out []*Term
	for i, ins := range blk.Instrs {
		if i >= ci {
			break
		}
		a, ok := ins.(*ssa.Alloc)
		if !ok || !a.Heap {
			continue
		}
		if _, isS := a.Type().(*types.Pointer).Elem().Underlying().(*types.Struct); !isS {
			continue
		}
		r, ok := fx.vals[a]
		if !ok {
			continue
		}
		ls, always := fx.leakers(a)
		if always {
			continue
		}
		leaked := false
		for _, l := range ls {
			if l.Block() != blk {
				continue // runs after this block completes
			}
			if j, ok := idx[l]; ok && j <= ci {
				leaked = true
			}
		}
		if !leaked {
			out = append(out, r)
		}
	}
	return out
}

// opaqueCall: nothing is known about the callee: every heap location may
// change except objects private to this activation; results are unconstrained.
// observerCallee: a /repo method with an observer name; its heap effects are bounded
// by the frame obligations of the static check observer-frames (C14): only the
// cache fields Typ/Successors and ID fields of existing objects may change.
func observerCallee(name string) bool {
	if !strings.Contains(name, modPath) {
		return false
	}
	i := strings.LastIndex(name, ".")
	if i < 0 {
		return false
	}
	return observerNames[name[i+1:]]
}

var idFieldRe = regexp.MustCompile(`^F_.*_(Typ|Successors|LocalID|GlobalID|MetadataID)$`)

// reachesIDWrites: some function reachable from the targets is an ID setter (SetID/SetName).
var idWriteCache = map[*ssa.Function]bool{}

func (e *Engine) reachesIDWrites(targets []*ssa.Function) bool {
	if targets == nil {
		return true
	}
	for _, t := range targets {
		if v, ok := idWriteCache[t]; ok {
			if v {
				return true
			}
			continue
		}
		seen := map[*ssa.Function]bool{t: true}
		work := []*ssa.Function{t}
		found := false
		for len(work) > 0 && !found {
			f := work[0]
			work = work[1:]
			if f.Name() == "SetID" || f.Name() == "SetName" {
				found = true
				break
			}
			for _, c := range e.callees(f) {
				if c != nil && !seen[c] && fnInRepo(c) {
					seen[c] = true
					work = append(work, c)
				}
			}
		}
		idWriteCache[t] = found
		if found {
			return true
		}
	}
	return false
}

func (fx *FnExec) observerHavoc(st *State) {
	writesIDs := fx.e.reachesIDWrites(fx.opaqueTargets)
	fx.opaqueTargets = nil
	var names []string
	for k := range st.heap {
		names = append(names, k)
	}
	sort.Strings(names)
	keep := fx.keptKeys(st)
	// objects private to the active activations (allocated here, not yet escaped) cannot be reached by the callee
	var privs []*Term
	for f := fx; f != nil; f = f.parent {
		for _, r := range f.privRefs {
			privs = append(privs, r)
		}
	}
	privs = append(privs, fx.notYetLeaked()...)
	// an object handed to the callee (receiver or argument of the call being executed) is not private to us
	if ci, ok := fx.curInstr.(ssa.CallInstruction); ok {
		var argStrs []string
		cc := ci.Common()
		vs := append([]ssa.Value{}, cc.Args...)
		if cc.IsInvoke() {
			vs = append(vs, cc.Value)
		}
		for _, v := range vs {
			if t, ok := fx.vals[v]; ok {
				argStrs = append(argStrs, t.String())
			} else if _, isC := v.(*ssa.Const); !isC {
				argStrs = append(argStrs, "\x00any")
			}
		}
		var keepP []*Term
		for _, p := range privs {
			ps := p.String()
			handed := false
			for _, a := range argStrs {
				if a == "\x00any" || strings.Contains(a, ps) {
					handed = true
				}
			}
			if !handed {
				keepP = append(keepP, p)
			}
		}
		privs = keepP
	}
	sort.Slice(privs, func(i, j int) bool { return privs[i].String() < privs[j].String() })
	for _, k := range names {
		old := st.heap[k]
		isID := strings.HasSuffix(k, "ID")
		switch {
		case idFieldRe.MatchString(k) && (writesIDs || !isID):
			nv := fx.c.Fresh("obs_"+k, old.S)
			for _, p := range privs {
				nv = Store(nv, p, Select(old, p))
			}
			st.heap[k] = nv
		case strings.HasPrefix(k, "G_") && !keep[k] && !strings.HasPrefix(k, "G_visited") && writesIDs:
			st.heap[k] = fx.c.Fresh("obs_"+k, old.S)
		}
	}
	// cache / ID components not read so far must not be identified with their earlier value either
	if writesIDs {
		st.obsEpoch++
	} else {
		st.cacheEpoch++
	}
	fx.advanceAlloc(st)
}

// advanceAlloc: a callee may have allocated; the allocation counter moves on by
// an unknown non-negative amount.
func (fx *FnExec) advanceAlloc(st *State) {
	oldA := fx.heapGet(st, "alloc", SInt)
	d := fx.c.Fresh("adv", SInt)
	fx.c.Assume(Ge(d, IntLit(0)))
	st.heap["alloc"] = App("+", SInt, oldA, d)
}

func (fx *FnExec) opaqueCall(st *State, sig *types.Signature, name string) []*Term {
	if observerCallee(name) {
		fx.trusted("observer call " + name + ": may only fill the caches Typ/Successors and write ID fields (frame obligations of the static check observer-frames, C14); results unconstrained; assumed to return normally")
		fx.observerHavoc(st)
		var res []*Term
		for i := 0; i < sig.Results().Len(); i++ {
			rt := sig.Results().At(i).Type()
			v := fx.c.Fresh("obs_res", fx.e.sortOf(rt))
			fx.assumeType(st, v, rt)
			res = append(res, v)
		}
		return res
	}
	fx.trusted("opaque call " + name + ": unconstrained results and heap effects; assumed to return normally")
	if r := fx.root(); true {
		if r.opaqueUsed == nil {
			r.opaqueUsed = map[string]bool{}
		}
		r.opaqueUsed[name] = true
	}
	fx.havocHeap(st)
	var res []*Term
	for i := 0; i < sig.Results().Len(); i++ {
		rt := sig.Results().At(i).Type()
		v := fx.c.Fresh("oq_res", fx.e.sortOf(rt))
		fx.assumeType(st, v, rt)
		res = append(res, v)
	}
	return res
}

// havocHeap starts a new heap epoch: every component is unknown afterwards,
// except at the objects private to the active (inlined) activations.
// keptKeys resolves the keeps clause of the unit under verification: ghost states (assumed untouched by
// calls without a contract) and heap components -- fields `T.F`, `mapof(T.F)`, `elems(T.F)` -- that calls with
// unknown effects made by the unit leave unchanged (discharged by the static obligation keeps-frames). The
// components are materialised in st so that they survive a havoc of the whole heap.
func (fx *FnExec) keptKeys(st *State) map[string]bool {
	keep := map[string]bool{}
	for k := range fx.e.pureElemHeaps {
		if _, ok := st.heap[k]; ok {
			keep[k] = true
		}
	}
	r := fx.root()
	if r.con == nil {
		return keep
	}
	for _, g := range r.con.Keeps {
		if sf := fx.e.findSpec(r.con.Pkg, g); sf != nil && sf.Ghost {
			if rt, err := fx.e.resolveType(sf.Pkg, sf.Ret); err == nil {
				so := ArrSort(SInt, fx.e.sortOf(rt))
				st.heap["G_"+g] = fx.heapGet(st, "G_"+g, so)
			}
			keep["G_"+g] = true
			fx.trusted("assumption (keeps): calls without a contract made by " + r.fn.Name() + " do not change the ghost state " + g)
			continue
		}
		ks, err := fx.e.keepDesignator(fx, r.con.Pkg, g)
		if err != nil {
			fx.fail("keeps %s: %v", g, err)
		}
		for k, so := range ks {
			st.heap[k] = fx.heapGet(st, k, so)
			keep[k] = true
		}
		fx.trusted("frame (keeps, static obligation keeps-frames): nothing reachable from the calls made by " + r.fn.Name() + " writes " + g)
	}
	return keep
}

// keepDesignator: `T.F` (the field), `mapof(T.F)` (the maps of that field's type), `elems(T.F)` (the slices of
// that field's element type) -> heap components and their sorts.
func (e *Engine) keepDesignator(fx *FnExec, pkg, g string) (map[string]Sort, error) {
	kind := "field"
	if strings.HasPrefix(g, "mapof(") && strings.HasSuffix(g, ")") {
		kind, g = "map", g[6:len(g)-1]
	} else if strings.HasPrefix(g, "elems(") && strings.HasSuffix(g, ")") {
		kind, g = "elems", g[6:len(g)-1]
	}
	i := strings.LastIndex(g, ".")
	if i < 0 {
		return nil, fmt.Errorf("not a ghost state and not of the form T.F")
	}
	t, err := e.resolveType(pkg, g[:i])
	if err != nil {
		return nil, err
	}
	if _, ok := t.Underlying().(*types.Struct); !ok {
		return nil, fmt.Errorf("%s is not a struct type", g[:i])
	}
	si := e.structOf(t)
	for fi := 0; fi < si.st.NumFields(); fi++ {
		if si.st.Field(fi).Name() != g[i+1:] {
			continue
		}
		ft := si.st.Field(fi).Type()
		switch kind {
		case "field":
			return map[string]Sort{fieldHeapName(si, fi): ArrSort(SInt, fx.fieldSort(si, fi))}, nil
		case "map":
			mt, ok := ft.Underlying().(*types.Map)
			if !ok {
				return nil, fmt.Errorf("%s is not a map", g)
			}
			dn, vn, ds, vs := fx.mapHeapNames(mt)
			return map[string]Sort{dn: ds, vn: vs}, nil
		case "elems":
			sl, ok := ft.Underlying().(*types.Slice)
			if !ok {
				return nil, fmt.Errorf("%s is not a slice", g)
			}
			if _, isI := sl.Elem().Underlying().(*types.Interface); isI {
				return nil, fmt.Errorf("%s: slices of interface values share one heap component; elems() needs a concrete element type", g)
			}
			n, so := fx.elemHeapName(sl.Elem())
			return map[string]Sort{n: so}, nil
		}
	}
	return nil, fmt.Errorf("no field %s", g[i+1:])
}

func (fx *FnExec) havocHeap(st *State) {
	var privs []*Term
	for f := fx; f != nil; f = f.parent {
		for _, r := range f.privRefs {
			privs = append(privs, r)
		}
	}
	privs = append(privs, fx.notYetLeaked()...)
	sort.Slice(privs, func(i, j int) bool { return privs[i].String() < privs[j].String() })
	fx.c.nfresh++
	epoch := fmt.Sprintf("e%d", fx.c.nfresh)
	keep := fx.keptKeys(st)
	var names []string
	for k := range st.heap {
		names = append(names, k)
	}
	sort.Strings(names)
	oldA := fx.heapGet(st, "alloc", SInt)
	for _, k := range names {
		if k == "alloc" || keep[k] {
			continue
		}
		old := st.heap[k]
		if len(privs) == 0 || !strings.HasPrefix(string(old.S), "(Array Int ") {
			delete(st.heap, k)
			continue
		}
		nv := fx.c.Const("H"+epoch+"_"+k, old.S)
		for _, p := range privs {
			nv = Store(nv, p, Select(old, p))
		}
		st.heap[k] = fx.c.Name("oqp_"+k, nv)
	}
	st.epoch = epoch
	st.heap["alloc"] = oldA
	fx.advanceAlloc(st)
}


func anyBehAssignsAny(con *Contract) bool {
	for _, b := range con.Behs {
		if b.AssignsAny {
			return true
		}
	}
	return false
}
