package main

// Lemmas: proved (directly or by induction on a natural-number binder) before
// they may be used as quantified assumptions.

import (
	"fmt"
	"sort"
	"strings"
)

func (e *Engine) specOnlyExec(c *Ctx) *FnExec {
	fx := &FnExec{e: e, c: c}
	alloc0 := c.Const("alloc0", SInt)
	fx.entryAlloc = alloc0
	fx.entry = &State{guard: True, cells: nil, heap: map[string]*Term{"alloc": alloc0}}
	return fx
}

// lemmaTerm translates a lemma/axiom; for "by induction on n" lemmas the used
// form is guarded by n >= 0.
func (fx *FnExec) lemmaTerm(ax *Axiom, pkg string) *Term {
	env := &SpecEnv{fx: fx, pkg: ax.Pkg, vars: map[string]specVal{}, st: fx.entry, where: "lemma " + ax.Name}
	if ax.Pkg == "" {
		env.pkg = pkg
	}
	if ax.By == "" {
		return generaliseHeap(env.boolExpr(ax.Expr))
	}
	e := ax.Expr
	if e.Kind != "call" || e.Name != "forall" {
		env.fail("induction lemma must be a forall")
	}
	binders, body, pats := splitQuant(e)
	guard := &SExpr{Kind: "binary", Name: "==>", Args: []*SExpr{
		{Kind: "binary", Name: ">=", Args: []*SExpr{{Kind: "ident", Name: ax.By}, {Kind: "int", Int: "0"}}},
		body}}
	ne := &SExpr{Kind: "call", Name: "forall", Args: append(append(append([]*SExpr{}, binders...), guard), pats...)}
	return generaliseHeap(env.boolExpr(ne))
}

// generaliseHeap: a lemma about heap-reading spec functions is proved for an
// arbitrary heap (the components appear as the free constants H0_<component>);
// where it is used it holds for every heap, so those constants become
// universally quantified variables of the lemma.
func generaliseHeap(t *Term) *Term {
	comps := map[string]Sort{}
	var walk func(x *Term)
	walk = func(x *Term) {
		if len(x.Args) == 0 && x.lit == nil && strings.HasPrefix(x.Op, "H0_") {
			comps[x.Op] = x.S
		}
		for _, a := range x.Args {
			walk(a)
		}
		for _, a := range x.Pats {
			walk(a)
		}
		for _, ps := range x.AltPats {
			for _, a := range ps {
				walk(a)
			}
		}
	}
	walk(t)
	if len(comps) == 0 {
		return t
	}
	var names []string
	for n := range comps {
		names = append(names, n)
	}
	sort.Strings(names)
	m := map[string]*Term{}
	var hv []*Term
	for _, n := range names {
		v := Var("hp!"+n[3:], comps[n])
		m[n] = v
		hv = append(hv, v)
	}
	if t.Op == "forall" {
		// only if every heap variable is bound by the (first) pattern; otherwise the fact stays
		// an instance for the heap on entry, as before
		if len(t.Pats) > 0 {
			pt := ""
			for _, p := range t.Pats {
				pt += " " + p.String()
			}
			for _, n := range names {
				if !strings.Contains(pt, n) {
					return t
				}
			}
		}
		body := subst(t.Args[0], m)
		var pats []*Term
		for _, p := range t.Pats {
			pats = append(pats, subst(p, m))
		}
		var nap [][]*Term
		for _, ps := range t.AltPats {
			var x []*Term
			for _, p := range ps {
				x = append(x, subst(p, m))
			}
			nap = append(nap, x)
		}
		return &Term{Op: "forall", S: SBool, Bound: append(append([]*Term{}, t.Bound...), hv...), Args: []*Term{body}, Pats: pats, AltPats: nap}
	}
	return Forall(hv, subst(t, m))
}

// VerifyLemma generates the proof obligations of a lemma. Only axioms and
// lemmas that precede it in load order may be used.
func (e *Engine) VerifyLemma(ax *Axiom) (res *UnitResult) {
	u := &Unit{Name: "lemma:" + ax.Name}
	res = &UnitResult{Unit: u}
	c := NewCtx()
	res.Ctx = c
	defer func() {
		if r := recover(); r != nil {
			switch x := r.(type) {
			case unsupported:
				res.Err = "unsupported: " + string(x)
			case specErr:
				res.Err = "contract-stale: " + string(x)
			default:
				panic(r)
			}
		}
	}()
	nameDefs = map[string]*Term{}
	keyTerms = map[string][]*Term{}
	closures = map[string]*closureInfo{}
	fx := e.specOnlyExec(c)
	fx.prefix = u.Name
	env := &SpecEnv{fx: fx, pkg: ax.Pkg, vars: map[string]specVal{}, st: fx.entry, where: "lemma " + ax.Name}
	var goal *Term
	if ax.By == "" {
		goal = env.boolExpr(ax.Expr)
	} else {
		ex := ax.Expr
		if ex.Kind != "call" || ex.Name != "forall" {
			env.fail("induction lemma must be a forall")
		}
		binders, body, pats := splitQuant(ex)
		inner := env
		var nvar *Term
		for _, a := range binders {
			name, typ := env.bindVar(a)
			v := c.Const("L_"+name, e.sortOf(typ))
			inner = inner.with(name, specVal{v, typ})
			if tr := fx.typeInvQ(v, typ); !tr.IsTrue() {
				c.Assume(tr)
			}
			if name == ax.By {
				nvar = v
			}
		}
		if nvar == nil {
			env.fail("induction variable %s is not a binder", ax.By)
		}
		c.Assume(Ge(nvar, IntLit(0)))
		// induction hypothesis: the lemma for all smaller naturals (other binders generalised)
		m := &SExpr{Kind: "ident", Name: ax.By}
		ihBody := &SExpr{Kind: "binary", Name: "==>", Args: []*SExpr{
			{Kind: "binary", Name: "&&", Args: []*SExpr{
				{Kind: "binary", Name: "<=", Args: []*SExpr{{Kind: "int", Int: "0"}, m}},
				{Kind: "binary", Name: "<", Args: []*SExpr{m, {Kind: "ident", Name: "ind$bound"}}}}},
			body}}
		ih := &SExpr{Kind: "call", Name: "forall", Args: append(append(append([]*SExpr{}, binders...), ihBody), pats...)}
		ihEnv := env.with("ind$bound", specVal{nvar, tInt})
		c.Assume(ihEnv.boolExpr(ih))
		goal = inner.boolExpr(body)
	}
	// earlier axioms and lemmas (to a fixpoint: an axiom may introduce the spec function another one is about)
	var earlier []*Axiom
	for _, o := range e.axioms {
		if o == ax {
			break
		}
		if o.Pkg != "" && o.Pkg != ax.Pkg {
			continue
		}
		if o.Manual {
			continue
		}
		earlier = append(earlier, o)
	}
	usedAx := map[*Axiom]bool{}
	for changed := true; changed; {
		changed = false
		for _, o := range earlier {
			if usedAx[o] {
				continue
			}
			names := map[string]bool{}
			collectCalls(o.Expr, names)
			rel := false
			for n := range names {
				if c.HasDecl("spec_" + n) {
					rel = true
				}
			}
			if !rel {
				continue
			}
			usedAx[o] = true
			changed = true
			kind := "axiom"
			if o.Lemma {
				kind = "lemma"
			}
			c.Axiom(kind+" "+o.Name, fx.lemmaTerm(o, ax.Pkg))
			if o.Lemma {
				fx.usedLemma(o)
			} else {
				fx.trusted("axiom " + o.Name + ": " + o.Text)
			}
		}
	}
	kind := "lemma"
	if ax.By != "" {
		kind = "lemma-induction"
	}
	c.AddObl(&Obligation{Name: u.Name + "/" + kind, Func: "lemma " + ax.Name, Kind: kind, Guard: True, Goal: goal, Pos: fmt.Sprintf("%s:%d", ax.File, ax.Line)})
	res.Obls = c.obls
	for o := range fx.lemmasUsed {
		res.Lemmas = append(res.Lemmas, o)
	}
	for k := range fx.trustedUsed {
		res.Trusted = append(res.Trusted, k)
	}
	sort.Strings(res.Trusted)
	return res
}
