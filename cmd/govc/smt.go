package main

// SMT term layer: sorted terms, light simplification, SMT-LIB2 printing.

import (
	"fmt"
	"math/big"
	"sort"
	"strings"
)

// Sort is an SMT-LIB sort expression.
type Sort string

const (
	SBool Sort = "Bool"
	SInt  Sort = "Int"
	SStr  Sort = "Str"  // (mkstr sarr slen): strings always start at index 0 of their array; slicing shifts the array (shl)
	SSlc  Sort = "Slc"  // (mkslc sbase soff slen scap)
	SIfc  Sort = "Ifc"  // (mkifc itag iptr)
	SArrI Sort = "(Array Int Int)"
	SSet  Sort = "(Array Int Bool)"
)

func ArrSort(k, v Sort) Sort { return Sort("(Array " + string(k) + " " + string(v) + ")") }

// elemSort returns the value sort of an array sort.
func (s Sort) elemSort() Sort {
	str := string(s)
	if !strings.HasPrefix(str, "(Array ") {
		panic("elemSort of non-array " + str)
	}
	inner := str[len("(Array ") : len(str)-1]
	// split first sort
	d := 0
	for i, c := range inner {
		switch c {
		case '(':
			d++
		case ')':
			d--
		case ' ':
			if d == 0 {
				return Sort(inner[i+1:])
			}
		}
	}
	panic("bad array sort " + str)
}

func (s Sort) keySort() Sort {
	str := string(s)
	inner := str[len("(Array ") : len(str)-1]
	d := 0
	for i, c := range inner {
		switch c {
		case '(':
			d++
		case ')':
			d--
		case ' ':
			if d == 0 {
				return Sort(inner[:i])
			}
		}
	}
	panic("bad array sort " + str)
}

// Term is an SMT term. Terms are immutable.
type Term struct {
	Op   string // operator / symbol / literal text
	Args []*Term
	S    Sort
	// binder info for quantifiers
	Bound []*Term // bound variables (Op == "forall"/"exists")
	Pats  []*Term // optional :pattern (one multi-pattern)
	AltPats [][]*Term // further alternative patterns
	lit   *big.Int
	str   string // cached printing
}

func (t *Term) String() string {
	if t.str != "" {
		return t.str
	}
	var sb strings.Builder
	t.write(&sb)
	s := sb.String()
	if len(s) < 4096 {
		t.str = s
	}
	return s
}

func (t *Term) write(sb *strings.Builder) {
	if t.str != "" {
		sb.WriteString(t.str)
		return
	}
	switch {
	case t.lit != nil:
		if t.lit.Sign() < 0 {
			sb.WriteString("(- ")
			sb.WriteString(new(big.Int).Neg(t.lit).String())
			sb.WriteString(")")
		} else {
			sb.WriteString(t.lit.String())
		}
	case t.Op == "forall" || t.Op == "exists":
		sb.WriteString("(")
		sb.WriteString(t.Op)
		sb.WriteString(" (")
		for _, b := range t.Bound {
			fmt.Fprintf(sb, "(%s %s)", b.Op, b.S)
		}
		sb.WriteString(") ")
		if len(t.Pats) > 0 {
			sb.WriteString("(! ")
			t.Args[0].write(sb)
			for _, ps := range append([][]*Term{t.Pats}, t.AltPats...) {
				sb.WriteString(" :pattern (")
				for i, p := range ps {
					if i > 0 {
						sb.WriteString(" ")
					}
					p.write(sb)
				}
				sb.WriteString(")")
			}
			sb.WriteString(")")
		} else {
			t.Args[0].write(sb)
		}
		sb.WriteString(")")
	case len(t.Args) == 0:
		sb.WriteString(t.Op)
	default:
		sb.WriteString("(")
		sb.WriteString(t.Op)
		for _, a := range t.Args {
			sb.WriteString(" ")
			a.write(sb)
		}
		sb.WriteString(")")
	}
}

var (
	True  = &Term{Op: "true", S: SBool}
	False = &Term{Op: "false", S: SBool}
)

func IntLit(v int64) *Term       { return &Term{S: SInt, lit: big.NewInt(v)} }
func BigLit(v *big.Int) *Term    { return &Term{S: SInt, lit: new(big.Int).Set(v)} }
func Var(name string, s Sort) *Term { return &Term{Op: name, S: s} }
func BoolLit(b bool) *Term {
	if b {
		return True
	}
	return False
}

func (t *Term) IsLit() bool   { return t.lit != nil }
func (t *Term) IsTrue() bool  { return t == True || (t.Op == "true" && len(t.Args) == 0 && t.S == SBool) }
func (t *Term) IsFalse() bool { return t == False || (t.Op == "false" && len(t.Args) == 0 && t.S == SBool) }

func same(a, b *Term) bool {
	if a == b {
		return true
	}
	if a.lit != nil && b.lit != nil {
		return a.lit.Cmp(b.lit) == 0
	}
	if a.lit != nil || b.lit != nil {
		return false
	}
	if a.Op != b.Op || len(a.Args) != len(b.Args) || a.S != b.S {
		return false
	}
	if a.Op == "forall" || a.Op == "exists" {
		return a.String() == b.String()
	}
	for i := range a.Args {
		if !same(a.Args[i], b.Args[i]) {
			return false
		}
	}
	return true
}

func App(op string, s Sort, args ...*Term) *Term {
	return &Term{Op: op, S: s, Args: args}
}

func Not(a *Term) *Term {
	if a.IsTrue() {
		return False
	}
	if a.IsFalse() {
		return True
	}
	if a.Op == "not" {
		return a.Args[0]
	}
	return App("not", SBool, a)
}

func And(as ...*Term) *Term {
	var out []*Term
	for _, a := range as {
		if a.IsTrue() {
			continue
		}
		if a.IsFalse() {
			return False
		}
		if a.Op == "and" {
			out = append(out, a.Args...)
		} else {
			out = append(out, a)
		}
	}
	if len(out) == 0 {
		return True
	}
	if len(out) == 1 {
		return out[0]
	}
	return App("and", SBool, out...)
}

func Or(as ...*Term) *Term {
	var out []*Term
	for _, a := range as {
		if a.IsFalse() {
			continue
		}
		if a.IsTrue() {
			return True
		}
		if a.Op == "or" {
			out = append(out, a.Args...)
		} else {
			out = append(out, a)
		}
	}
	if len(out) == 0 {
		return False
	}
	if len(out) == 1 {
		return out[0]
	}
	return App("or", SBool, out...)
}

func Implies(a, b *Term) *Term {
	if a.IsTrue() {
		return b
	}
	if a.IsFalse() || b.IsTrue() {
		return True
	}
	if b.IsFalse() {
		return Not(a)
	}
	return App("=>", SBool, a, b)
}

func Ite(c, a, b *Term) *Term {
	if c.IsTrue() {
		return a
	}
	if c.IsFalse() {
		return b
	}
	if same(a, b) {
		return a
	}
	if a.S == SBool {
		if a.IsTrue() && b.IsFalse() {
			return c
		}
		if a.IsFalse() && b.IsTrue() {
			return Not(c)
		}
	}
	if a.S != b.S {
		panic(fmt.Sprintf("ite sort mismatch %s vs %s: %s / %s", a.S, b.S, a, b))
	}
	return App("ite", a.S, c, a, b)
}

func Eq(a, b *Term) *Term {
	if a.S != b.S {
		panic(fmt.Sprintf("eq sort mismatch %s vs %s: %s / %s", a.S, b.S, a, b))
	}
	if same(a, b) {
		return True
	}
	if a.lit != nil && b.lit != nil {
		return BoolLit(a.lit.Cmp(b.lit) == 0)
	}
	if a.S == SBool {
		if a.IsTrue() {
			return b
		}
		if b.IsTrue() {
			return a
		}
		if a.IsFalse() {
			return Not(b)
		}
		if b.IsFalse() {
			return Not(a)
		}
	}
	// constructor-wise equality for tuple-like datatypes built explicitly
	if isCtor(a.Op) && a.Op == b.Op && len(a.Args) == len(b.Args) && len(a.Args) > 0 {
		var cs []*Term
		for i := range a.Args {
			cs = append(cs, Eq(a.Args[i], b.Args[i]))
		}
		return And(cs...)
	}
	return App("=", SBool, a, b)
}

func Neq(a, b *Term) *Term { return Not(Eq(a, b)) }

func cmpLit(op string, a, b *Term) (*Term, bool) {
	if a.lit != nil && b.lit != nil {
		c := a.lit.Cmp(b.lit)
		switch op {
		case "<":
			return BoolLit(c < 0), true
		case "<=":
			return BoolLit(c <= 0), true
		case ">":
			return BoolLit(c > 0), true
		case ">=":
			return BoolLit(c >= 0), true
		}
	}
	return nil, false
}

func Lt(a, b *Term) *Term {
	if t, ok := cmpLit("<", a, b); ok {
		return t
	}
	if same(a, b) {
		return False
	}
	return App("<", SBool, a, b)
}
func Le(a, b *Term) *Term {
	if t, ok := cmpLit("<=", a, b); ok {
		return t
	}
	if same(a, b) {
		return True
	}
	return App("<=", SBool, a, b)
}
func Gt(a, b *Term) *Term { return Lt(b, a) }
func Ge(a, b *Term) *Term { return Le(b, a) }

func Add(a, b *Term) *Term {
	if a.lit != nil && b.lit != nil {
		return BigLit(new(big.Int).Add(a.lit, b.lit))
	}
	if a.lit != nil && a.lit.Sign() == 0 {
		return b
	}
	if b.lit != nil && b.lit.Sign() == 0 {
		return a
	}
	return App("+", SInt, a, b)
}
func Sub(a, b *Term) *Term {
	if a.lit != nil && b.lit != nil {
		return BigLit(new(big.Int).Sub(a.lit, b.lit))
	}
	// (x + c1) - c2
	if b.lit != nil && a.Op == "+" && len(a.Args) == 2 && a.Args[1].lit != nil && a.lit == nil {
		return Add(a.Args[0], BigLit(new(big.Int).Sub(a.Args[1].lit, b.lit)))
	}
	if b.lit != nil && b.lit.Sign() == 0 {
		return a
	}
	if same(a, b) {
		return IntLit(0)
	}
	return App("-", SInt, a, b)
}
func Mul(a, b *Term) *Term {
	if a.lit != nil && b.lit != nil {
		return BigLit(new(big.Int).Mul(a.lit, b.lit))
	}
	if a.lit != nil && a.lit.Cmp(big.NewInt(1)) == 0 {
		return b
	}
	if b.lit != nil && b.lit.Cmp(big.NewInt(1)) == 0 {
		return a
	}
	return App("*", SInt, a, b)
}
func Neg(a *Term) *Term {
	if a.lit != nil {
		return BigLit(new(big.Int).Neg(a.lit))
	}
	return App("-", SInt, a)
}

// Div / Mod are SMT-LIB (floor for positive divisor) operations.
func Div(a, b *Term) *Term {
	if a.lit != nil && b.lit != nil && b.lit.Sign() > 0 {
		q := new(big.Int)
		m := new(big.Int)
		q.DivMod(a.lit, b.lit, m) // Euclidean
		return BigLit(q)
	}
	return App("div", SInt, a, b)
}
func Mod(a, b *Term) *Term {
	if a.lit != nil && b.lit != nil && b.lit.Sign() > 0 {
		q := new(big.Int)
		m := new(big.Int)
		q.DivMod(a.lit, b.lit, m)
		return BigLit(m)
	}
	return App("mod", SInt, a, b)
}

// nameDefs maps fresh names introduced by Ctx.Name to their definitions, so
// that simplification can look through them (reset per verification unit).
var nameDefs = map[string]*Term{}

func lookThrough(a *Term) *Term {
	for len(a.Args) == 0 && a.lit == nil {
		d, ok := nameDefs[a.Op]
		if !ok {
			break
		}
		a = d
	}
	return a
}

func Select(a, i *Term) *Term {
	orig := a
	a = lookThrough(a)
	if a.Op == "shl" {
		return Select(a.Args[0], Add(a.Args[1], i))
	}
	if a.Op == "consarr" && i.lit != nil {
		if i.lit.Sign() == 0 {
			return a.Args[0]
		}
		if i.lit.Sign() > 0 {
			return Select(a.Args[1], Sub(i, IntLit(1)))
		}
	}
	// select over store with syntactically decidable indices
	hit := false
	for a.Op == "store" {
		if same(a.Args[1], i) {
			return a.Args[2]
		}
		if (a.Args[1].lit != nil && i.lit != nil) || linDistinct(a.Args[1], i) {
			a = lookThrough(a.Args[0])
			hit = true
			continue
		}
		break
	}
	if !hit {
		a = orig
	}
	return App("select", a.S.elemSort(), a, i)
}

// linParts decomposes a term into base + constant + a set of non-negative
// allocation advances (adv!N), looking through names.
func linParts(t *Term) (base *Term, off *big.Int, advs map[string]bool, ok bool) {
	off = new(big.Int)
	advs = map[string]bool{}
	ok = true
	var walk func(t *Term, depth int)
	walk = func(t *Term, depth int) {
		t = lookThrough(t)
		switch {
		case t.lit != nil:
			off.Add(off, t.lit)
		case t.Op == "+" && depth < 64:
			for _, a := range t.Args {
				walk(a, depth+1)
			}
		case len(t.Args) == 0 && strings.HasPrefix(t.Op, "adv!"):
			advs[t.Op] = true
		default:
			if base != nil {
				ok = false
				return
			}
			base = t
		}
	}
	walk(t, 0)
	return
}

func subsetOf(a, b map[string]bool) bool {
	for k := range a {
		if !b[k] {
			return false
		}
	}
	return true
}

// linDistinct: the two integer terms provably differ (same base and different
// constants modulo non-negative allocation advances; or a package-level
// variable's address against a reference allocated during verification).
func linDistinct(a, b *Term) bool {
	if a.S != SInt || b.S != SInt {
		return false
	}
	ba, oa, da, ok1 := linParts(a)
	bb, ob, db, ok2 := linParts(b)
	if !ok1 || !ok2 {
		return false
	}
	if ba == nil && bb != nil {
		ba, oa, da, bb, ob, db = bb, ob, db, ba, oa, da
	}
	if ba != nil && bb == nil {
		// literal (address of a global, below 2000000) against alloc0 + k (alloc0 > 2000000)
		return len(db) == 0 && ba.Op == "alloc0" && len(ba.Args) == 0 && oa.Sign() >= 0 && ob.Sign() >= 0 && ob.Cmp(big.NewInt(2000000)) <= 0
	}
	if ba == nil || bb == nil || !same(ba, bb) {
		return false
	}
	if subsetOf(db, da) && oa.Cmp(ob) > 0 {
		return true // a > b
	}
	if subsetOf(da, db) && ob.Cmp(oa) > 0 {
		return true // b > a
	}
	return false
}

func Store(a, i, v *Term) *Term {
	if v.S != a.S.elemSort() {
		panic(fmt.Sprintf("store sort mismatch: array %s value %s", a.S, v.S))
	}
	return App("store", a.S, a, i, v)
}

func isCtor(op string) bool {
	return strings.HasPrefix(op, "mk")
}

// Datatype declarations: constructor name -> selector names/sorts.
type dtDecl struct {
	sort  Sort
	ctor  string
	sels  []string
	sorts []Sort
}

var (
	datatypes     = map[string]*dtDecl{} // by ctor
	datatypeOrder []*dtDecl
	selToCtor     = map[string]*dtDecl{}
)

func declareDatatype(s Sort, ctor string, sels []string, sorts []Sort) *dtDecl {
	if d, ok := datatypes[ctor]; ok {
		return d
	}
	d := &dtDecl{sort: s, ctor: ctor, sels: sels, sorts: sorts}
	datatypes[ctor] = d
	datatypeOrder = append(datatypeOrder, d)
	for _, x := range sels {
		selToCtor[x] = d
	}
	return d
}

func init() {
	declareDatatype(SStr, "mkstr", []string{"sarr", "slen"}, []Sort{SArrI, SInt})
	declareDatatype(SSlc, "mkslc", []string{"sbase", "soffs", "slenn", "scap"}, []Sort{SInt, SInt, SInt, SInt})
	declareDatatype(SIfc, "mkifc", []string{"itag", "iptr"}, []Sort{SInt, SInt})
	NilIfc = MkIfc(IntLit(0), IntLit(0))
}

// Sel applies a datatype selector, simplifying over constructors and ite.
func Sel(sel string, t *Term) *Term {
	d := selToCtor[sel]
	if d == nil {
		panic("unknown selector " + sel)
	}
	idx := -1
	for i, s := range d.sels {
		if s == sel {
			idx = i
		}
	}
	if t.Op == d.ctor {
		return t.Args[idx]
	}
	if t.Op == "ite" {
		return Ite(t.Args[0], Sel(sel, t.Args[1]), Sel(sel, t.Args[2]))
	}
	return App(sel, d.sorts[idx], t)
}

func Ctor(ctor string, args ...*Term) *Term {
	d := datatypes[ctor]
	if d == nil {
		panic("unknown ctor " + ctor)
	}
	if len(args) != len(d.sels) {
		panic("ctor arity " + ctor)
	}
	for i, a := range args {
		if a.S != d.sorts[i] {
			panic(fmt.Sprintf("ctor %s arg %d sort %s want %s", ctor, i, a.S, d.sorts[i]))
		}
	}
	return App(ctor, d.sort, args...)
}

// Strings ---------------------------------------------------------------

func MkStr(arr, ln *Term) *Term { return Ctor("mkstr", trimStores(arr, ln), ln) }

// trimStores drops stores at or beyond the length of a string: they are not part of its contents.
func trimStores(arr, n *Term) *Term {
	for arr.Op == "store" && arr.S == SArrI {
		idx := arr.Args[1]
		drop := same(idx, n)
		if !drop && idx.Op == "+" && len(idx.Args) == 2 && idx.Args[1].lit != nil && idx.Args[1].lit.Sign() >= 0 && same(idx.Args[0], n) {
			drop = true
		}
		if !drop && idx.lit != nil && n.lit != nil && idx.lit.Cmp(n.lit) >= 0 {
			drop = true
		}
		if !drop {
			break
		}
		arr = arr.Args[0]
	}
	return arr
}

// Shl shifts an array: Shl(a, o)[k] == a[o+k] (axiomatised in every query).
func Shl(arr, off *Term) *Term {
	if off.lit != nil && off.lit.Sign() == 0 {
		return arr
	}
	if arr.Op == "shl" {
		return Shl(arr.Args[0], Add(arr.Args[1], off))
	}
	// shifting past a prepended element drops it
	if arr.Op == "consarr" && off.lit != nil && off.lit.Sign() > 0 {
		return Shl(arr.Args[1], Sub(off, IntLit(1)))
	}
	// a store commutes with the shift (string contents live at indices >= 0 only)
	if arr.Op == "store" && arr.S == SArrI {
		return Store(Shl(arr.Args[0], off), Sub(arr.Args[1], off), arr.Args[2])
	}
	return App("shl", SArrI, arr, off)
}

// ConsArr prepends one element: ConsArr(c, a)[0] == c, ConsArr(c, a)[i+1] == a[i] (axiomatised in every query that uses it).
func ConsArr(c, a *Term) *Term { return App("consarr", SArrI, c, a) }
func StrArr(s *Term) *Term            { return Sel("sarr", s) }
func StrLen(s *Term) *Term            { return Sel("slen", s) }
func StrAt(s, i *Term) *Term          { return Select(StrArr(s), i) }

func MkSlc(base, off, ln, cp *Term) *Term { return Ctor("mkslc", base, off, ln, cp) }
func SlcBase(s *Term) *Term                { return Sel("sbase", s) }
func SlcOff(s *Term) *Term                 { return Sel("soffs", s) }
func SlcLen(s *Term) *Term                 { return Sel("slenn", s) }
func SlcCap(s *Term) *Term                 { return Sel("scap", s) }

func MkIfc(tag, ptr *Term) *Term { return Ctor("mkifc", tag, ptr) }
func IfcTag(s *Term) *Term       { return Sel("itag", s) }
func IfcPtr(s *Term) *Term       { return Sel("iptr", s) }

var NilIfc *Term

// Quantifiers ----------------------------------------------------------

func Forall(bound []*Term, body *Term, pats ...*Term) *Term {
	if body.IsTrue() {
		return True
	}
	return &Term{Op: "forall", S: SBool, Bound: bound, Args: []*Term{body}, Pats: pats}
}
func Exists(bound []*Term, body *Term) *Term {
	if body.IsFalse() {
		return False
	}
	return &Term{Op: "exists", S: SBool, Bound: bound, Args: []*Term{body}}
}

// substitute replaces variables (by name) in t.
func subst(t *Term, m map[string]*Term) *Term {
	if len(m) == 0 {
		return t
	}
	if t.lit != nil {
		return t
	}
	if len(t.Args) == 0 {
		if r, ok := m[t.Op]; ok && r.S == t.S {
			return r
		}
		return t
	}
	if t.Op == "forall" || t.Op == "exists" {
		m2 := m
		for _, b := range t.Bound {
			if _, ok := m[b.Op]; ok {
				if &m2 == &m || len(m2) == len(m) {
					m2 = map[string]*Term{}
					for k, v := range m {
						m2[k] = v
					}
				}
				delete(m2, b.Op)
			}
		}
		nb := subst(t.Args[0], m2)
		var np []*Term
		for _, p := range t.Pats {
			np = append(np, subst(p, m2))
		}
		var nap [][]*Term
		for _, ps := range t.AltPats {
			var x []*Term
			for _, p := range ps {
				x = append(x, subst(p, m2))
			}
			nap = append(nap, x)
		}
		return &Term{Op: t.Op, S: SBool, Bound: t.Bound, Args: []*Term{nb}, Pats: np, AltPats: nap}
	}
	changed := false
	args := make([]*Term, len(t.Args))
	for i, a := range t.Args {
		args[i] = subst(a, m)
		if args[i] != a {
			changed = true
		}
	}
	if !changed {
		return t
	}
	return rebuild(t.Op, t.S, args)
}

// rebuild re-applies simplifying constructors after substitution.
func rebuild(op string, s Sort, args []*Term) *Term {
	switch op {
	case "and":
		return And(args...)
	case "or":
		return Or(args...)
	case "not":
		return Not(args[0])
	case "=>":
		return Implies(args[0], args[1])
	case "ite":
		return Ite(args[0], args[1], args[2])
	case "=":
		if len(args) == 2 {
			return Eq(args[0], args[1])
		}
	case "<":
		return Lt(args[0], args[1])
	case "<=":
		return Le(args[0], args[1])
	case "+":
		if len(args) == 2 {
			return Add(args[0], args[1])
		}
	case "-":
		if len(args) == 2 {
			return Sub(args[0], args[1])
		}
		if len(args) == 1 {
			return Neg(args[0])
		}
	case "*":
		if len(args) == 2 {
			return Mul(args[0], args[1])
		}
	case "div":
		return Div(args[0], args[1])
	case "mod":
		return Mod(args[0], args[1])
	case "select":
		return Select(args[0], args[1])
	case "shl":
		return Shl(args[0], args[1])
	case "store":
		return Store(args[0], args[1], args[2])
	}
	if _, ok := selToCtor[op]; ok && len(args) == 1 {
		return Sel(op, args[0])
	}
	return App(op, s, args...)
}

// freeSyms collects 0-ary and applied symbol names occurring in t.
func freeSyms(t *Term, out map[string]bool) {
	if t.lit != nil {
		return
	}
	if t.Op == "forall" || t.Op == "exists" {
		freeSyms(t.Args[0], out)
		for _, p := range t.Pats {
			freeSyms(p, out)
		}
		for _, ps := range t.AltPats {
			for _, p := range ps {
				freeSyms(p, out)
			}
		}
		return
	}
	out[t.Op] = true
	for _, a := range t.Args {
		freeSyms(a, out)
	}
}

func sortedKeys(m map[string]bool) []string {
	var ks []string
	for k := range m {
		ks = append(ks, k)
	}
	sort.Strings(ks)
	return ks
}
