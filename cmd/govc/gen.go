package main

// Mechanical generation of harness inputs from the declarations in /repo.

import (
	"fmt"
	"go/types"
	"os"
	"path/filepath"
	"sort"
	"strings"

	"golang.org/x/tools/go/packages"
)

func loadTypes(repo string, patterns ...string) ([]*packages.Package, error) {
	cfg := &packages.Config{Mode: packages.NeedTypes | packages.NeedName | packages.NeedImports | packages.NeedDeps | packages.NeedSyntax | packages.NeedTypesInfo, Dir: repo,
		Env: append(os.Environ(), "GOFLAGS=-mod=mod", "GOPROXY=off", "GOSUMDB=off", "GOTOOLCHAIN=local")}
	return packages.Load(cfg, patterns...)
}

func generateHarness(kind, src, tmp, repo string) (string, error) {
	b, err := os.ReadFile(src)
	if err != nil {
		return "", err
	}
	text := string(b)
	switch kind {
	case "ir-user-types":
		pkgs, err := loadTypes(repo, "./ir")
		if err != nil || len(pkgs) != 1 {
			return "", fmt.Errorf("load ./ir: %v", err)
		}
		sc := pkgs[0].Types.Scope()
		var names []string
		for _, n := range sc.Names() {
			tn, ok := sc.Lookup(n).(*types.TypeName)
			if !ok {
				continue
			}
			if _, isS := tn.Type().Underlying().(*types.Struct); !isS {
				continue
			}
			ms := types.NewMethodSet(types.NewPointer(tn.Type()))
			if ms.Lookup(pkgs[0].Types, "Operands") != nil {
				names = append(names, n)
			}
		}
		sort.Strings(names)
		if len(names) == 0 {
			return "", fmt.Errorf("no types with Operands() found")
		}
		var items []string
		for _, n := range names {
			items = append(items, "&"+n+"{}")
		}
		text = strings.Replace(text, "/*TYPES*/", strings.Join(items, ", "), 1)
	case "enum-table":
		pkgs, err := loadTypes(repo, "./asm/enum")
		if err != nil || len(pkgs) != 1 {
			return "", fmt.Errorf("load ./asm/enum: %v", err)
		}
		sc := pkgs[0].Types.Scope()
		var rows []string
		nconst := 0
		names := sc.Names()
		sort.Strings(names)
		for _, n := range names {
			fn, ok := sc.Lookup(n).(*types.Func)
			if !ok || !strings.HasSuffix(n, "FromString") {
				continue
			}
			sig := fn.Type().(*types.Signature)
			if sig.Results().Len() != 1 || sig.Params().Len() != 1 {
				continue
			}
			rt, ok := sig.Results().At(0).Type().(*types.Named)
			if !ok {
				continue
			}
			tpkg := rt.Obj().Pkg()
			alias := "enum"
			if tpkg.Name() == "types" {
				alias = "types"
			}
			var consts []string
			tsc := tpkg.Scope()
			cn := tsc.Names()
			sort.Strings(cn)
			for _, c := range cn {
				co, ok := tsc.Lookup(c).(*types.Const)
				if !ok || !types.Identical(co.Type(), rt) || !co.Exported() {
					continue
				}
				consts = append(consts, fmt.Sprintf("{%q, %s.%s.String(), uint64(%s.%s)}", c, alias, c, alias, c))
				nconst++
			}
			rows = append(rows, fmt.Sprintf("{%q, func(s string) uint64 { return uint64(asmenum.%s(s)) }, []verifC18Const{%s}}", rt.Obj().Name(), n, strings.Join(consts, ", ")))
		}
		if nconst == 0 {
			return "", fmt.Errorf("no enum constants found")
		}
		text = strings.Replace(text, "/*ENUMS*/", strings.Join(rows, ",\n\t")+",", 1)
	default:
		return "", fmt.Errorf("unknown generator %s", kind)
	}
	out := filepath.Join(tmp, filepath.Base(src))
	return out, os.WriteFile(out, []byte(text), 0o644)
}
