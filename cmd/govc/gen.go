package main

// Mechanical generation of harness inputs from the declarations in /repo.

import (
	"fmt"
	"go/types"
	"os"
	"path/filepath"
	"sort"
	"strings"

	"golang.org/x/tools/go/packages"
)

func loadTypes(repo string, patterns ...string) ([]*packages.Package, error) {
	cfg := &packages.Config{Mode: packages.NeedTypes | packages.NeedName | packages.NeedImports | packages.NeedDeps | packages.NeedSyntax | packages.NeedTypesInfo, Dir: repo,
		Env: append(os.Environ(), "GOFLAGS=-mod=mod", "GOPROXY=off", "GOSUMDB=off", "GOTOOLCHAIN=local")}
	return packages.Load(cfg, patterns...)
}

func generateHarness(kind, src, tmp, repo string) (string, error) {
	b, err := os.ReadFile(src)
	if err != nil {
		return "", err
	}
	text := string(b)
	switch kind {
	case "ir-user-types":
		pkgs, err := loadTypes(repo, "./ir")
		if err != nil || len(pkgs) != 1 {
			return "", fmt.Errorf("load ./ir: %v", err)
		}
		sc := pkgs[0].Types.Scope()
		var names []string
		for _, n := range sc.Names() {
			tn, ok := sc.Lookup(n).(*types.TypeName)
			if !ok {
				continue
			}
			if _, isS := tn.Type().Underlying().(*types.Struct); !isS {
				continue
			}
			ms := types.NewMethodSet(types.NewPointer(tn.Type()))
			if ms.Lookup(pkgs[0].Types, "Operands") != nil {
				names = append(names, n)
			}
		}
		sort.Strings(names)
		if len(names) == 0 {
			return "", fmt.Errorf("no types with Operands() found")
		}
		var items []string
		for _, n := range names {
			items = append(items, "&"+n+"{}")
		}
		text = strings.Replace(text, "/*TYPES*/", strings.Join(items, ", "), 1)
	default:
		return "", fmt.Errorf("unknown generator %s", kind)
	}
	out := filepath.Join(tmp, filepath.Base(src))
	return out, os.WriteFile(out, []byte(text), 0o644)
}
