package main

// Static obligations: frame conditions checked store by store over go/ssa
// (the `assigns` clause of every function reachable from the observers is
// "nothing but the whitelisted caches and ID fields"), and lock dominance.

import (
	"fmt"
	"go/token"
	"go/types"
	"sort"
	"strings"

	"golang.org/x/tools/go/ssa"
)

type staticResult struct {
	Name    string
	Func    string
	Kind    string
	Pos     string
	Status  string
	Detail  string
	Witness string
	Backend string // "" = govc-static
}

func (e *Engine) runStatic(name, prop string) ([]staticResult, []string) {
	switch name {
	case "observer-frames":
		return e.observerFrames(prop)
	case "lock-dominates":
		return e.lockDominates(prop)
	case "ident-impls":
		return e.identImpls(prop)
	case "assign-first":
		return e.assignFirst(prop)
	case "alloc-sites":
		return e.allocSites(prop)
	case "pure-funcs":
		return e.pureFuncs(prop)
	case "todo-order":
		return e.todoOrder(prop)
	case "enum-roundtrip":
		return e.enumRoundtrip(prop)
	case "keeps-frames":
		return e.keepsFrames(prop)
	case "index-writers":
		return e.indexWriters(prop)
	case "no-shared-state":
		return e.noSharedState(prop)
	case "strings-via-order":
		return e.stringsViaOrder(prop)
	}
	return nil, []string{"unknown static check " + name}
}

func inRepoPkg(p *types.Package) bool {
	return p != nil && (p.Path() == modPath || strings.HasPrefix(p.Path(), modPath+"/"))
}

func fnInRepo(fn *ssa.Function) bool {
	for fn.Parent() != nil {
		fn = fn.Parent()
	}
	if fn.Pkg != nil {
		return inRepoPkg(fn.Pkg.Pkg)
	}
	if fn.Object() != nil {
		return inRepoPkg(fn.Object().Pkg())
	}
	// synthetic wrappers of repo methods
	if recv := fn.Signature.Recv(); recv != nil {
		t := recv.Type()
		if p, ok := t.(*types.Pointer); ok {
			t = p.Elem()
		}
		if n, ok := t.(*types.Named); ok {
			return inRepoPkg(n.Obj().Pkg())
		}
	}
	return false
}

// (AssignIDs: the numbering pass the printers run first; it writes ID fields only, under the function's lock)
var observerNames = map[string]bool{"AssignIDs": true, "String": true, "LLString": true, "Ident": true, "Name": true, "ID": true, "IsUnnamed": true,
	"Type": true, "Operands": true, "Succs": true, "Sig": true, "WriteTo": true, "MDAttachments": true, "Equal": true, "IsDistinct": true}

// whitelisted cache / ID fields that observers may write
var cacheFields = map[string]bool{"Typ": true, "Successors": true, "LocalID": true, "GlobalID": true}

// repoMethodsNamed returns every method of a /repo type with the given name
// that could be the target of a dynamic call with this signature.
func (e *Engine) dynamicTargets(cc *ssa.CallCommon) []*ssa.Function {
	var out []*ssa.Function
	iface, ok := cc.Value.Type().Underlying().(*types.Interface)
	if !ok {
		return nil
	}
	for _, p := range e.prog.AllPackages() {
		if !inRepoPkg(p.Pkg) {
			continue
		}
		for _, m := range p.Members {
			tn, ok := m.(*ssa.Type)
			if !ok {
				continue
			}
			for _, T := range []types.Type{tn.Type(), types.NewPointer(tn.Type())} {
				if _, isI := T.Underlying().(*types.Interface); isI {
					continue
				}
				if !types.Implements(T, iface) {
					continue
				}
				sel := e.prog.MethodSets.MethodSet(T).Lookup(cc.Method.Pkg(), cc.Method.Name())
				if sel == nil {
					continue
				}
				if fn := e.prog.MethodValue(sel); fn != nil {
					out = append(out, fn)
				}
			}
		}
	}
	return out
}

func (e *Engine) callees(fn *ssa.Function) []*ssa.Function {
	var out []*ssa.Function
	for _, b := range fn.Blocks {
		for _, ins := range b.Instrs {
			switch x := ins.(type) {
			case ssa.CallInstruction:
				cc := x.Common()
				if cc.IsInvoke() {
					out = append(out, e.dynamicTargets(cc)...)
					continue
				}
				switch c := cc.Value.(type) {
				case *ssa.Function:
					out = append(out, c)
				case *ssa.MakeClosure:
					out = append(out, c.Fn.(*ssa.Function))
				}
			case *ssa.MakeClosure:
				out = append(out, x.Fn.(*ssa.Function))
			}
		}
	}
	out = append(out, fn.AnonFuncs...)
	return out
}

// origin classifies where a reference-like value comes from: true = memory
// allocated in this activation (or nil/constant), false = possibly shared.
func freshOrigin(v ssa.Value, seen map[ssa.Value]bool) bool {
	if seen[v] {
		return true
	}
	seen[v] = true
	switch x := v.(type) {
	case *ssa.Alloc, *ssa.MakeSlice, *ssa.MakeMap, *ssa.MakeClosure, *ssa.Const, *ssa.MakeInterface:
		if mi, ok := x.(*ssa.MakeInterface); ok {
			return freshOrigin(mi.X, seen)
		}
		return true
	case *ssa.Slice:
		return freshOrigin(x.X, seen)
	case *ssa.ChangeType:
		return freshOrigin(x.X, seen)
	case *ssa.Convert:
		return true // string <-> []byte conversions copy
	case *ssa.Phi:
		for _, e := range x.Edges {
			if !freshOrigin(e, seen) {
				return false
			}
		}
		return true
	case *ssa.FieldAddr:
		return freshOrigin(x.X, seen)
	case *ssa.IndexAddr:
		return freshOrigin(x.X, seen)
	case *ssa.Call:
		if b, ok := x.Call.Value.(*ssa.Builtin); ok && b.Name() == "append" {
			return freshOrigin(x.Call.Args[0], seen)
		}
		if f, ok := x.Call.Value.(*ssa.Function); ok {
			// constructors of fresh values
			full := f.String()
			if strings.HasPrefix(f.Name(), "New") || full == "strings.Split" || full == "strings.Fields" || full == "fmt.Sprintf" {
				return true
			}
		}
		return false
	case *ssa.UnOp:
		if x.Op != token.MUL {
			return false
		}
		// load from a local cell: all values ever stored to the cell must be fresh
		a, ok := x.X.(*ssa.Alloc)
		if !ok {
			return false
		}
		refs := a.Referrers()
		if refs == nil {
			return false
		}
		for _, r := range *refs {
			if st, ok := r.(*ssa.Store); ok && st.Addr == a {
				if !freshOrigin(st.Val, seen) {
					return false
				}
			}
		}
		return true
	}
	return false
}

type frameViolation struct {
	fn   *ssa.Function
	pos  token.Pos
	what string
}

func (e *Engine) frameViolations(fn *ssa.Function) []frameViolation {
	var out []frameViolation
	add := func(p token.Pos, f string, a ...interface{}) {
		out = append(out, frameViolation{fn, p, fmt.Sprintf(f, a...)})
	}
	for _, b := range fn.Blocks {
		for _, ins := range b.Instrs {
			switch x := ins.(type) {
			case *ssa.Store:
				switch a := x.Addr.(type) {
				case *ssa.Alloc:
					// local variable or fresh cell
				case *ssa.FieldAddr:
					if freshOrigin(a.X, map[ssa.Value]bool{}) {
						continue
					}
					pt := a.X.Type().Underlying().(*types.Pointer)
					st := pt.Elem().Underlying().(*types.Struct)
					fname := st.Field(a.Field).Name()
					if fname == "Typ" || fname == "Successors" {
						// a lazily filled cache: written only when it is empty (so a filled cache is never
						// rewritten: a second printer or observer performs no write here)
						if !guardedByNil(x, a) {
							add(x.Pos(), "writes the cache field %s of a shared %s without the guard %s == nil", fname, pt.Elem(), fname)
						}
						continue
					}
					if cacheFields[fname] {
						continue
					}
					// initialisation of the object just stored into a cache field (x.Typ.AddrSpace = ...)
					if ld, ok := a.X.(*ssa.UnOp); ok && ld.Op == token.MUL {
						if fa, ok := ld.X.(*ssa.FieldAddr); ok {
							bst := fa.X.Type().Underlying().(*types.Pointer).Elem().Underlying().(*types.Struct)
							if cacheFields[bst.Field(fa.Field).Name()] {
								continue
							}
						}
					}
					// fmtWriter is private to Module.WriteTo (allocated there, never stored or returned); its
					// methods are under contract for property C19
					if n, ok := pt.Elem().(*types.Named); ok && n.Obj().Name() == "fmtWriter" {
						continue
					}
					// field of a local struct value reached through nested FieldAddr on an Alloc is fresh (handled above)
					add(x.Pos(), "writes field %s of a shared %s", fname, pt.Elem())
				case *ssa.IndexAddr:
					if freshOrigin(a.X, map[ssa.Value]bool{}) {
						continue
					}
					add(x.Pos(), "writes an element of a shared %s", a.X.Type())
				case *ssa.Global:
					add(x.Pos(), "writes package variable %s", a.Name())
				case *ssa.FreeVar:
					// captured variable of the enclosing function: a local of the parent
				case *ssa.Parameter:
					// store through a pointer parameter: allowed for the ID setters only
					if pt, ok := a.Type().Underlying().(*types.Pointer); ok {
						if n, ok := pt.Elem().(*types.Named); ok && (n.Obj().Name() == "MetadataID") {
							continue
						}
					}
					add(x.Pos(), "writes through pointer parameter %s", a.Name())
				default:
					if freshOrigin(x.Addr, map[ssa.Value]bool{}) {
						continue
					}
					add(x.Pos(), "writes through %s", x.Addr.Type())
				}
			case *ssa.MapUpdate:
				if !freshOrigin(x.Map, map[ssa.Value]bool{}) {
					add(x.Pos(), "updates a shared map")
				}
			case *ssa.Call:
				if bi, ok := x.Call.Value.(*ssa.Builtin); ok {
					switch bi.Name() {
					case "copy", "delete":
						if !freshOrigin(x.Call.Args[0], map[ssa.Value]bool{}) {
							add(x.Pos(), "%s on shared memory", bi.Name())
						}
					}
				}
				if bi, ok := x.Call.Value.(*ssa.Builtin); ok && bi.Name() == "append" && len(x.Call.Args) > 0 {
					// append(shared[:k], ...): the spare capacity behind a resliced shared slice is the tail of
					// the shared slice itself -- the append overwrites its elements in place
					if reslicedShared(x.Call.Args[0], map[ssa.Value]bool{}) {
						add(x.Pos(), "appends into the backing array of a resliced shared slice")
					}
				}
				// sorting permutes its argument in place
				if callee, ok := x.Call.Value.(*ssa.Function); ok && len(x.Call.Args) > 0 {
					switch callee.String() {
					case "sort.Slice", "sort.SliceStable", "sort.Sort", "sort.Stable", "sort.Strings", "sort.Ints", "sort.Float64s", modPath + "/internal/natsort.Strings":
						arg := x.Call.Args[0]
						// the slice may be wrapped: MakeInterface(slice) / MakeInterface(ChangeType(slice))
						for {
							if mi, ok := arg.(*ssa.MakeInterface); ok {
								arg = mi.X
								continue
							}
							if ct, ok := arg.(*ssa.ChangeType); ok {
								arg = ct.X
								continue
							}
							break
						}
						if !freshOrigin(arg, map[ssa.Value]bool{}) && fn.String() != modPath+"/internal/natsort.Strings" {
							// (natsort.Strings sorts its own argument: its call sites are what is checked)
							add(x.Pos(), "%s reorders a shared slice in place", callee.Name())
						}
					}
				}
				// the address of a component of a shared object handed to code outside /repo (atomic.Value.Store,
				// sync.Map, sync.Once, ...): the callee may write through it -- a cache kept behind a library type
				// instead of a plain field. Locks are the business of lock-dominates.
				if callee, ok := x.Call.Value.(*ssa.Function); ok && (callee.Pkg == nil || !inRepoPkg(callee.Pkg.Pkg)) && !fnInRepo(callee) {
					switch callee.String() {
					case "(*sync.Mutex).Lock", "(*sync.Mutex).Unlock", "(*sync.RWMutex).Lock", "(*sync.RWMutex).Unlock", "(*sync.RWMutex).RLock", "(*sync.RWMutex).RUnlock":
					default:
						for _, a := range x.Call.Args {
							switch a.(type) {
							case *ssa.FieldAddr, *ssa.IndexAddr:
								if !freshOrigin(a, map[ssa.Value]bool{}) {
									add(x.Pos(), "hands the address of shared memory to %s (may be written through)", callee.String())
								}
							}
						}
					}
				}
			case *ssa.Go:
				add(x.Pos(), "starts a goroutine")
			case *ssa.Send:
				add(x.Pos(), "channel send")
			}
		}
	}
	return out
}

// observerFrames: every function reachable from an observer method writes only
// fresh memory, the whitelisted caches (Typ, Successors) and ID fields.
func (e *Engine) observerFrames(prop string) ([]staticResult, []string) {
	var roots []*ssa.Function
	for _, p := range e.prog.AllPackages() {
		if !inRepoPkg(p.Pkg) || !(strings.Contains(p.Pkg.Path(), "/ir")) {
			continue
		}
		for _, m := range p.Members {
			tn, ok := m.(*ssa.Type)
			if !ok {
				continue
			}
			for _, T := range []types.Type{tn.Type(), types.NewPointer(tn.Type())} {
				ms := e.prog.MethodSets.MethodSet(T)
				for i := 0; i < ms.Len(); i++ {
					sel := ms.At(i)
					if !observerNames[sel.Obj().Name()] {
						continue
					}
					if fn := e.prog.MethodValue(sel); fn != nil && fnInRepo(fn) {
						roots = append(roots, fn)
					}
				}
			}
		}
	}
	if len(roots) == 0 {
		return nil, []string{"observer-frames: no observer methods found (packages not loaded?)"}
	}
	seen := map[*ssa.Function]bool{}
	var work []*ssa.Function
	for _, r := range roots {
		if !seen[r] {
			seen[r] = true
			work = append(work, r)
		}
	}
	for len(work) > 0 {
		f := work[0]
		work = work[1:]
		for _, c := range e.callees(f) {
			if c == nil || seen[c] || !fnInRepo(c) {
				continue
			}
			seen[c] = true
			work = append(work, c)
		}
	}
	var fns []*ssa.Function
	for f := range seen {
		if f.Blocks != nil && f.Synthetic == "" {
			fns = append(fns, f)
		}
	}
	sort.Slice(fns, func(i, j int) bool { return fns[i].String() < fns[j].String() })
	var res []staticResult
	for _, f := range fns {
		name := strings.Replace(f.String(), modPath+"/", "", -1)
		// mutators reachable only as part of (re)numbering are governed by their own contracts
		if f.Name() == "SetID" || f.Name() == "SetName" {
			continue
		}
		vs := e.frameViolations(f)
		r := staticResult{Name: "frame:" + name, Func: f.String(), Kind: "frame", Pos: posOf(e, f.Pos()), Status: "unsat",
			Detail: "every heap store of " + name + " targets memory allocated in the call, a cache field (Typ, Successors) or an ID field"}
		if len(vs) > 0 {
			r.Status = "fail"
			var ds []string
			for _, v := range vs {
				ds = append(ds, fmt.Sprintf("%s: %s", posOf(e, v.pos), v.what))
			}
			r.Detail = strings.Join(ds, "; ")
			r.Pos = posOf(e, vs[0].pos)
		}
		res = append(res, r)
	}
	return res, nil
}

func posOf(e *Engine, p token.Pos) string {
	if !p.IsValid() {
		return ""
	}
	ps := e.fset.Position(p)
	return fmt.Sprintf("%s:%d", strings.TrimPrefix(ps.Filename, e.repo+"/"), ps.Line)
}

// lockDominates: in the three ID-assignment functions, the mutex is taken before
// any ID is read or written and released by a deferred Unlock.
func (e *Engine) lockDominates(prop string) ([]staticResult, []string) {
	targets := []struct{ pkg, key string }{{modPath + "/ir", "(*Module).AssignGlobalIDs"}, {modPath + "/ir", "(*Module).AssignMetadataIDs"}, {modPath + "/ir", "(*Func).AssignIDs"}}
	var res []staticResult
	var errs []string
	for _, t := range targets {
		pkg := e.pkgs[t.pkg]
		if pkg == nil {
			errs = append(errs, "lock-dominates: package "+t.pkg+" not loaded")
			continue
		}
		fn, err := e.lookupFunc(pkg, t.key)
		if err != nil {
			errs = append(errs, "lock-dominates: contract-stale "+t.key+": "+err.Error())
			continue
		}
		r := staticResult{Name: "lock:" + t.key, Func: fn.String(), Kind: "lock-dominance", Pos: posOf(e, fn.Pos()), Status: "unsat",
			Detail: "mu.Lock() is the first effect of " + t.key + ", dominates every call and heap access, and mu.Unlock() is deferred right after it"}
		var lock *ssa.Call
		var lockBlock *ssa.BasicBlock
		lockIdx := -1
		deferOK := false
		var problems []string
		entry := fn.Blocks[0]
		for i, ins := range entry.Instrs {
			if c, ok := ins.(*ssa.Call); ok {
				if f, ok := c.Call.Value.(*ssa.Function); ok && f.String() == "(*sync.Mutex).Lock" {
					lock, lockBlock, lockIdx = c, entry, i
					break
				}
				if b, ok := c.Call.Value.(*ssa.Builtin); ok && strings.HasPrefix(b.Name(), "ssa:") {
					continue
				}
				problems = append(problems, fmt.Sprintf("%s: call before the lock is taken", posOf(e, c.Pos())))
			}
			if u, ok := ins.(*ssa.UnOp); ok && u.Op == token.MUL {
				if _, isAlloc := u.X.(*ssa.Alloc); !isAlloc {
					problems = append(problems, fmt.Sprintf("%s: heap read before the lock is taken", posOf(e, u.Pos())))
				}
			}
		}
		if lock == nil {
			problems = append(problems, "mu.Lock() is not called in the entry block")
		} else {
			// the next call-like instruction must be the deferred Unlock on the same mutex
			for _, ins := range lockBlock.Instrs[lockIdx+1:] {
				if d, ok := ins.(*ssa.Defer); ok {
					if f, ok := d.Call.Value.(*ssa.Function); ok && f.String() == "(*sync.Mutex).Unlock" {
						deferOK = true
					}
					break
				}
				if _, ok := ins.(ssa.CallInstruction); ok {
					break
				}
			}
			if !deferOK {
				problems = append(problems, "mu.Unlock() is not deferred immediately after mu.Lock()")
			}
			// no explicit Unlock elsewhere
			for _, b := range fn.Blocks {
				for _, ins := range b.Instrs {
					if c, ok := ins.(*ssa.Call); ok {
						if f, ok := c.Call.Value.(*ssa.Function); ok && f.String() == "(*sync.Mutex).Unlock" {
							problems = append(problems, fmt.Sprintf("%s: explicit Unlock inside the function", posOf(e, c.Pos())))
						}
					}
				}
			}
		}
		if len(problems) > 0 {
			r.Status = "fail"
			r.Detail = strings.Join(problems, "; ")
		}
		res = append(res, r)
	}
	return res, errs
}

// identImpls: the interface contracts of namedVar.{ID,SetID,IsUnnamed} and
// metadata.Definition.{ID,SetID} speak about abstract state (nvid/nvun/mdid).
// They are justified by (1) the field-level contracts of the six identifier
// methods below (verified deductively) and (2) this structural obligation:
// every type implementing the interface gets these methods by promotion from
// an identifier struct embedded by value (so distinct objects have distinct
// identifiers and nothing else happens in the call).
func (e *Engine) identImpls(prop string) ([]staticResult, []string) {
	type want struct {
		ifacePkg, iface string
		methods         map[string][]string // method -> allowed underlying functions
		alsoAny         [][2]string         // only types that also implement one of these interfaces (pkg, name)
		optional        bool                // skipped when the package of the interface is not loaded
	}
	ir := modPath + "/ir"
	md := modPath + "/ir/metadata"
	wants := []want{
		{ir, "namedVar", map[string][]string{
			"ID":        {"(" + ir + ".LocalIdent).ID", "(" + ir + ".GlobalIdent).ID"},
			"SetID":     {"(*" + ir + ".LocalIdent).SetID", "(*" + ir + ".GlobalIdent).SetID"},
			"IsUnnamed": {"(" + ir + ".LocalIdent).IsUnnamed", "(" + ir + ".GlobalIdent).IsUnnamed"},
		}, nil, false},
		{md, "Definition", map[string][]string{
			"ID":    {"(" + md + ".MetadataID).ID"},
			"SetID": {"(*" + md + ".MetadataID).SetID"},
		}, nil, false},
		// the instructions and terminators the parser indexes through asm.local (localIdentOfValue decodes Ident())
		{modPath + "/asm", "local", map[string][]string{
			"Ident":     {"(" + ir + ".LocalIdent).Ident"},
			"ID":        {"(" + ir + ".LocalIdent).ID"},
			"IsUnnamed": {"(" + ir + ".LocalIdent).IsUnnamed"},
		}, [][2]string{{ir, "Instruction"}, {ir, "Terminator"}}, true},
	}
	var res []staticResult
	var errs []string
	for _, w := range wants {
		pp := e.ppkgs[w.ifacePkg]
		if pp == nil && w.optional {
			continue
		}
		if pp == nil {
			errs = append(errs, "ident-impls: package "+w.ifacePkg+" not loaded")
			continue
		}
		obj := pp.Types.Scope().Lookup(w.iface)
		if obj == nil {
			errs = append(errs, "ident-impls: contract-stale: no interface "+w.iface)
			continue
		}
		it, ok := obj.Type().Underlying().(*types.Interface)
		if !ok {
			errs = append(errs, "ident-impls: "+w.iface+" is not an interface")
			continue
		}
		n := 0
		var impls []types.Type
		for _, p := range e.ppkgs {
			if p.Types == nil || !inRepoPkg(p.Types) {
				continue
			}
			sc := p.Types.Scope()
			for _, nm := range sc.Names() {
				tn, ok := sc.Lookup(nm).(*types.TypeName)
				if !ok || tn.IsAlias() {
					continue
				}
				if _, isI := tn.Type().Underlying().(*types.Interface); isI {
					continue
				}
				for _, cand := range []types.Type{tn.Type(), types.NewPointer(tn.Type())} {
					if types.Implements(cand, it) {
						keep := len(w.alsoAny) == 0
						for _, a := range w.alsoAny {
							if ap := e.ppkgs[a[0]]; ap != nil && ap.Types != nil {
								if o, ok := ap.Types.Scope().Lookup(a[1]).(*types.TypeName); ok {
									if ai, ok := o.Type().Underlying().(*types.Interface); ok && types.Implements(cand, ai) {
										keep = true
									}
								}
							}
						}
						if keep {
							impls = append(impls, cand)
						}
						break
					}
				}
			}
		}
		sort.Slice(impls, func(i, j int) bool { return impls[i].String() < impls[j].String() })
		for _, T := range impls {
			ms := e.prog.MethodSets.MethodSet(T)
			var mnames []string
			for m := range w.methods {
				mnames = append(mnames, m)
			}
			sort.Strings(mnames)
			for _, m := range mnames {
				n++
				short := strings.Replace(T.String(), modPath+"/", "", -1)
				r := staticResult{Name: "ident-impl:" + short + "." + m, Func: T.String() + "." + m, Kind: "ident-impl", Status: "unsat",
					Detail: m + " of " + short + " is the promoted method of an identifier struct embedded by value"}
				var sel *types.Selection
				for i := 0; i < ms.Len(); i++ {
					if ms.At(i).Obj().Name() == m {
						sel = ms.At(i)
					}
				}
				if sel == nil {
					r.Status, r.Detail = "fail", "method not found"
					res = append(res, r)
					continue
				}
				// underlying declared method
				fobj := sel.Obj().(*types.Func)
				decl := e.prog.FuncValue(fobj)
				full := ""
				if decl != nil {
					full = decl.String()
				}
				okFn := false
				for _, a := range w.methods[m] {
					if a == full {
						okFn = true
					}
				}
				// the promotion path must go through fields embedded by value only
				byValue := true
				cur := T
				if p, ok := cur.Underlying().(*types.Pointer); ok {
					cur = p.Elem()
				}
				idx := sel.Index()
				for _, fi := range idx[:len(idx)-1] {
					st, ok := cur.Underlying().(*types.Struct)
					if !ok {
						byValue = false
						break
					}
					ft := st.Field(fi).Type()
					if _, isPtr := ft.Underlying().(*types.Pointer); isPtr {
						byValue = false
					}
					if _, isIfc := ft.Underlying().(*types.Interface); isIfc {
						byValue = false
					}
					cur = ft
				}
				r.Pos = posOf(e, fobj.Pos())
				switch {
				case !okFn:
					r.Status, r.Detail = "fail", m+" of "+short+" is "+full+", not one of the identifier methods under contract"
				case !byValue:
					r.Status, r.Detail = "fail", m+" of "+short+" is promoted through a pointer or interface field: two objects could share one identifier"
				}
				res = append(res, r)
			}
		}
		if n == 0 {
			errs = append(errs, "ident-impls: no implementation of "+w.iface+" found (vacuous)")
		}
	}
	return res, errs
}


// assignFirst: every print entry point runs the ID assignment of its receiver
// unconditionally and before anything else: the assigner call dominates every other
// call of the function (calls on the panic path of a failed assignment excepted).
// This is what turns "renumbering is position-derived" (C08/C14 units) into "what a
// print shows does not depend on earlier prints", and it is condition O3 of C13.
func (e *Engine) assignFirst(prop string) ([]staticResult, []string) {
	targets := []struct {
		pkg, key  string
		assigners []string
	}{
		{modPath + "/ir", "(*Func).LLString", []string{"(*" + modPath + "/ir.Func).AssignIDs"}},
		{modPath + "/ir", "(*Module).WriteTo", []string{"(*" + modPath + "/ir.Module).AssignGlobalIDs", "(*" + modPath + "/ir.Module).AssignMetadataIDs"}},
	}
	var res []staticResult
	var errs []string
	for _, t := range targets {
		pkg := e.pkgs[t.pkg]
		if pkg == nil {
			errs = append(errs, "assign-first: package "+t.pkg+" not loaded")
			continue
		}
		fn, err := e.lookupFunc(pkg, t.key)
		if err != nil {
			errs = append(errs, "assign-first: contract-stale "+t.key+": "+err.Error())
			continue
		}
		// blocks from which the function can only panic (error path of a failed assignment)
		panics := map[*ssa.BasicBlock]bool{}
		for _, b := range fn.Blocks {
			if len(b.Instrs) > 0 {
				if _, ok := b.Instrs[len(b.Instrs)-1].(*ssa.Panic); ok {
					panics[b] = true
				}
			}
		}
		isRecv := func(v ssa.Value) bool {
			if len(fn.Params) == 0 {
				return false
			}
			if v == fn.Params[0] {
				return true
			}
			if u, ok := v.(*ssa.UnOp); ok && u.Op == token.MUL {
				if a, ok := u.X.(*ssa.Alloc); ok {
					n := 0
					good := false
					for _, r := range *a.Referrers() {
						if st, ok := r.(*ssa.Store); ok && st.Addr == a {
							n++
							good = st.Val == fn.Params[0]
						}
					}
					return n == 1 && good
				}
			}
			return false
		}
		for _, an := range t.assigners {
			short := an[strings.LastIndex(an, ".")+1:]
			r := staticResult{Name: "assign-first:" + t.key + ":" + short, Func: fn.String(), Kind: "assign-first", Pos: posOf(e, fn.Pos()), Status: "unsat",
				Detail: short + "() is called on the receiver unconditionally and dominates every other call of " + t.key}
			var site *ssa.Call
			var problems []string
			for _, b := range fn.Blocks {
				for _, ins := range b.Instrs {
					if c, ok := ins.(*ssa.Call); ok {
						if f, ok := c.Call.Value.(*ssa.Function); ok && f.String() == an {
							if site != nil {
								continue
							}
							site = c
						}
					}
				}
			}
			if site == nil {
				problems = append(problems, short+"() is not called")
			} else {
				if len(site.Call.Args) == 0 || !isRecv(site.Call.Args[0]) {
					problems = append(problems, fmt.Sprintf("%s: %s() is not called on the receiver", posOf(e, site.Pos()), short))
				}
				sb := site.Block()
				idx := func(b *ssa.BasicBlock, x ssa.Instruction) int {
					for i, ins := range b.Instrs {
						if ins == x {
							return i
						}
					}
					return -1
				}
				for _, b := range fn.Blocks {
					if panics[b] {
						continue
					}
					for _, ins := range b.Instrs {
						ci, ok := ins.(ssa.CallInstruction)
						if !ok || ins == ssa.Instruction(site) {
							continue
						}
						if bi, ok := ci.Common().Value.(*ssa.Builtin); ok && (strings.HasPrefix(bi.Name(), "ssa:") || bi.Name() == "len" || bi.Name() == "cap") {
							continue
						}
						if f, ok := ci.Common().Value.(*ssa.Function); ok {
							isOther := false
							for _, o := range t.assigners {
								if f.String() == o {
									isOther = true
								}
							}
							if isOther {
								continue
							}
						}
						dom := sb.Dominates(b) && (sb != b || idx(sb, site) < idx(b, ins))
						if !dom {
							problems = append(problems, fmt.Sprintf("%s: call not dominated by %s()", posOf(e, ins.Pos()), short))
						}
					}
					if rt, ok := b.Instrs[len(b.Instrs)-1].(*ssa.Return); ok {
						if !(sb.Dominates(b)) {
							problems = append(problems, fmt.Sprintf("%s: return not dominated by %s()", posOf(e, rt.Pos()), short))
						}
					}
				}
			}
			if len(problems) > 6 {
				problems = append(problems[:6], fmt.Sprintf("... %d more", len(problems)-6))
			}
			if len(problems) > 0 {
				r.Status = "fail"
				r.Detail = strings.Join(problems, "; ")
			}
			res = append(res, r)
		}
	}
	// numbering-callers: numbering writes IDs into the IR; it belongs to the print entry points of a module and of a
	// function (and to the parser, which validates the written numbers). Any other caller inside package ir -- a block
	// or instruction printer, a type or operand query -- would turn a read-only observer into one that stores
	// position-derived numbers (C14; and outside the locks of C13).
	if pkg := e.pkgs[modPath+"/ir"]; pkg != nil {
		numbering := map[string]bool{"(*" + modPath + "/ir.Func).AssignIDs": true, "(*" + modPath + "/ir.Module).AssignGlobalIDs": true, "(*" + modPath + "/ir.Module).AssignMetadataIDs": true}
		allowed := map[string]bool{"(*" + modPath + "/ir.Module).WriteTo": true, "(*" + modPath + "/ir.Func).LLString": true}
		r := staticResult{Name: "numbering-callers:ir", Func: modPath + "/ir", Kind: "assign-first", Status: "unsat",
			Detail: "inside package ir, AssignIDs / AssignGlobalIDs / AssignMetadataIDs are called by (*Module).WriteTo and (*Func).LLString only"}
		var problems []string
		var fns []*ssa.Function
		var add func(f *ssa.Function)
		add = func(f *ssa.Function) {
			fns = append(fns, f)
			for _, a := range f.AnonFuncs {
				add(a)
			}
		}
		for _, mem := range pkg.Members {
			switch m := mem.(type) {
			case *ssa.Function:
				add(m)
			case *ssa.Type:
				for _, T := range []types.Type{m.Type(), types.NewPointer(m.Type())} {
					ms := e.prog.MethodSets.MethodSet(T)
					for i := 0; i < ms.Len(); i++ {
						if f := e.prog.MethodValue(ms.At(i)); f != nil && f.Pkg == pkg && f.Synthetic == "" {
							add(f)
						}
					}
				}
			}
		}
		seenFn := map[*ssa.Function]bool{}
		for _, f := range fns {
			if seenFn[f] || f.Blocks == nil {
				continue
			}
			seenFn[f] = true
			root := f
			for root.Parent() != nil {
				root = root.Parent()
			}
			if allowed[root.String()] || numbering[root.String()] {
				continue
			}
			for _, b := range f.Blocks {
				for _, ins := range b.Instrs {
					if ci, ok := ins.(ssa.CallInstruction); ok {
						if g, ok := ci.Common().Value.(*ssa.Function); ok && numbering[g.String()] {
							problems = append(problems, fmt.Sprintf("%s: %s calls %s", posOf(e, ins.Pos()), strings.Replace(root.String(), modPath+"/", "", -1), g.Name()))
						}
					}
				}
			}
		}
		sort.Strings(problems)
		if len(problems) > 0 {
			r.Status = "fail"
			r.Detail = strings.Join(problems, "; ")
		}
		res = append(res, r)
	}
	return res, errs
}

// allocSites: objects of the listed types are created only inside the listed functions of
// package asm (whitelist sweep). Used for C04: every blockaddress constant the translator
// creates goes through (*generator).irBlockAddressConst, which registers it for the fix-up
// pass that replaces the placeholder block by the block of the named function.
func (e *Engine) allocSites(prop string) ([]staticResult, []string) {
	type rule struct {
		pkg     string   // package swept
		typ     string   // full type string of the created object
		ctors   []string // constructor functions whose calls count as creation sites
		allowed []string // functions (String()) allowed to create
		why     string
	}
	rules := []rule{{modPath + "/asm", modPath + "/ir/constant.BlockAddress", []string{modPath + "/ir/constant.NewBlockAddress"},
		[]string{"(*" + modPath + "/asm.generator).irBlockAddressConst"},
		"every blockaddress constant is created by irBlockAddressConst (which records it in gen.todo for the block fix-up)"}}
	var res []staticResult
	var errs []string
	for _, ru := range rules {
		pkg := e.pkgs[ru.pkg]
		if pkg == nil {
			errs = append(errs, "alloc-sites: package "+ru.pkg+" not loaded")
			continue
		}
		short := ru.typ[strings.LastIndex(ru.typ, "/")+1:]
		r := staticResult{Name: "alloc-sites:" + short, Func: ru.pkg, Kind: "alloc-sites", Status: "unsat", Detail: ru.why}
		var problems []string
		nsites := 0
		var visit func(fn *ssa.Function)
		seen := map[*ssa.Function]bool{}
		visit = func(fn *ssa.Function) {
			if fn == nil || seen[fn] {
				return
			}
			seen[fn] = true
			ok := false
			for _, a := range ru.allowed {
				if fn.String() == a {
					ok = true
				}
			}
			for _, b := range fn.Blocks {
				for _, ins := range b.Instrs {
					creates := false
					switch x := ins.(type) {
					case *ssa.Alloc:
						if pt, isP := x.Type().(*types.Pointer); isP && types.TypeString(pt.Elem(), nil) == ru.typ {
							creates = true
						}
					case ssa.CallInstruction:
						if f, isF := x.Common().Value.(*ssa.Function); isF {
							for _, c := range ru.ctors {
								if f.String() == c {
									creates = true
								}
							}
						}
					}
					if creates {
						nsites++
						if !ok {
							problems = append(problems, fmt.Sprintf("%s: %s created in %s", posOf(e, ins.Pos()), short, fn.Name()))
						}
					}
				}
			}
			for _, an := range fn.AnonFuncs {
				visit(an)
			}
		}
		for _, m := range pkg.Members {
			switch x := m.(type) {
			case *ssa.Function:
				visit(x)
			case *ssa.Type:
				for _, T := range []types.Type{x.Type(), types.NewPointer(x.Type())} {
					ms := e.prog.MethodSets.MethodSet(T)
					for i := 0; i < ms.Len(); i++ {
						if f := e.prog.MethodValue(ms.At(i)); f != nil && f.Pkg == pkg {
							visit(f)
						}
					}
				}
			}
		}
		if nsites == 0 {
			problems = append(problems, "no creation site found (contract-stale: the whitelist names nothing)")
		}
		if len(problems) > 0 {
			r.Status = "fail"
			r.Detail = strings.Join(problems, "; ")
		}
		res = append(res, r)
	}
	return res, errs
}


// sameRoot: two SSA values denote the same object: identical, or loads of one
// local cell that is assigned exactly once (a parameter or a receiver).
func sameRoot(a, b ssa.Value) bool {
	if a == b {
		return true
	}
	la, ok1 := a.(*ssa.UnOp)
	lb, ok2 := b.(*ssa.UnOp)
	if !ok1 || !ok2 || la.Op != token.MUL || lb.Op != token.MUL || la.X != lb.X {
		return false
	}
	al, ok := la.X.(*ssa.Alloc)
	if !ok || al.Referrers() == nil {
		return false
	}
	n := 0
	for _, r := range *al.Referrers() {
		if st, ok := r.(*ssa.Store); ok && st.Addr == al {
			n++
		}
	}
	return n == 1
}

// guardedByNil: the store to field fa is executed only on a path on which the same
// field of the same object was just found to be nil (if x.F == nil { x.F = ... }, or
// if x.F != nil { return x.F }; x.F = ...).
func guardedByNil(st *ssa.Store, fa *ssa.FieldAddr) bool {
	isNil := func(v ssa.Value) bool {
		c, ok := v.(*ssa.Const)
		return ok && c.Value == nil
	}
	isField := func(v ssa.Value) bool {
		ld, ok := v.(*ssa.UnOp)
		if !ok || ld.Op != token.MUL {
			return false
		}
		f2, ok := ld.X.(*ssa.FieldAddr)
		return ok && f2.Field == fa.Field && sameRoot(f2.X, fa.X)
	}
	b := st.Block()
	for d := b; d != nil; d = d.Idom() {
		if len(d.Instrs) == 0 {
			continue
		}
		iff, ok := d.Instrs[len(d.Instrs)-1].(*ssa.If)
		if !ok {
			continue
		}
		cmp, ok := iff.Cond.(*ssa.BinOp)
		if !ok || (cmp.Op != token.EQL && cmp.Op != token.NEQ) {
			continue
		}
		if !((isField(cmp.X) && isNil(cmp.Y)) || (isField(cmp.Y) && isNil(cmp.X))) {
			continue
		}
		nilEdge := d.Succs[0]
		if cmp.Op == token.NEQ {
			nilEdge = d.Succs[1]
		}
		if len(nilEdge.Preds) == 1 && nilEdge.Dominates(b) {
			// no other store to the field between the test and this store is required: a second
			// store on the same path still happens only when the cache was empty at the test
			return true
		}
	}
	return false
}

// pureFuncs: every /repo function whose contract says `pure` (its calls are modelled as
// an uninterpreted function of the arguments) really is one: it and every /repo function
// it reaches write only memory they allocate, read no shared mutable memory (only their
// own locals, memory they allocated, constant strings and the immutable memory of pure
// packages), call only such functions, pure packages and side-effect-free library
// functions, and return plain values (no references whose identity could differ per call).
func (e *Engine) pureFuncs(prop string) ([]staticResult, []string) {
	var res []staticResult
	var fns []*ssa.Function
	for fn, con := range e.cons {
		if con.Pure && hasProp(con.Props, prop) {
			fns = append(fns, fn)
		}
	}
	sort.Slice(fns, func(i, j int) bool { return fns[i].String() < fns[j].String() })
	libOK := func(full string) bool {
		for _, p := range []string{"strings.", "strconv.", "fmt.Sprintf", "fmt.Errorf", "fmt.Sprint", "errors.", "github.com/pkg/errors.", "unicode/utf8.", "bytes.", "(*strings.Builder).", "math."} {
			if strings.HasPrefix(full, p) {
				return true
			}
		}
		return false
	}
	var plain func(t types.Type, d int) bool
	plain = func(t types.Type, d int) bool {
		if d > 6 {
			return false
		}
		switch u := t.Underlying().(type) {
		case *types.Basic:
			return u.Kind() != types.UnsafePointer
		case *types.Struct:
			for i := 0; i < u.NumFields(); i++ {
				if !plain(u.Field(i).Type(), d+1) {
					return false
				}
			}
			return true
		case *types.Array:
			return plain(u.Elem(), d+1)
		}
		return false
	}
	for _, root := range fns {
		name := strings.Replace(root.String(), modPath+"/", "", -1)
		r := staticResult{Name: "pure:" + name, Func: root.String(), Kind: "pure", Pos: posOf(e, root.Pos()), Status: "unsat",
			Detail: name + " and the /repo functions it reaches write only memory they allocate, read no shared mutable memory and return plain values"}
		var problems []string
		sig := root.Signature
		for i := 0; i < sig.Results().Len(); i++ {
			if !plain(sig.Results().At(i).Type(), 0) {
				problems = append(problems, fmt.Sprintf("result %d of type %s is not a plain value", i, sig.Results().At(i).Type()))
			}
		}
		seen := map[*ssa.Function]bool{root: true}
		work := []*ssa.Function{root}
		for len(work) > 0 {
			fn := work[0]
			work = work[1:]
			if fn.Blocks == nil {
				problems = append(problems, fn.String()+" has no body")
				continue
			}
			for _, v := range e.frameViolations(fn) {
				problems = append(problems, fmt.Sprintf("%s: %s", posOf(e, v.pos), v.what))
			}
			for _, b := range fn.Blocks {
				for _, ins := range b.Instrs {
					switch x := ins.(type) {
					case *ssa.UnOp:
						if x.Op != token.MUL {
							continue
						}
						if _, ok := x.X.(*ssa.Alloc); ok {
							continue
						}
						if freshOrigin(x.X, map[ssa.Value]bool{}) {
							continue
						}
						// memory of a pure package
						if fa, ok := x.X.(*ssa.FieldAddr); ok {
							if n, ok := fa.X.Type().Underlying().(*types.Pointer).Elem().(*types.Named); ok && e.isPurePkg(n.Obj().Pkg()) {
								continue
							}
						}
						if pt, ok := x.X.Type().Underlying().(*types.Pointer); ok {
							if n, ok := pt.Elem().(*types.Named); ok && e.isPurePkg(n.Obj().Pkg()) {
								continue
							}
						}
						if g, ok := x.X.(*ssa.Global); ok && g.Pkg != nil && strings.HasPrefix(g.Name(), "init$") {
							continue
						}
						// an element of a package-level table of plain values that nothing but the package
						// initialiser writes (the generated keyword tables)
						if g := tableOf(x.X); g != nil && immutableTable(g) {
							continue
						}
						problems = append(problems, fmt.Sprintf("%s: reads shared memory through %s", posOf(e, x.Pos()), x.X.Type()))
					case *ssa.Lookup:
						if _, isMap := x.X.Type().Underlying().(*types.Map); isMap && !freshOrigin(x.X, map[ssa.Value]bool{}) {
							problems = append(problems, fmt.Sprintf("%s: reads a shared map", posOf(e, x.Pos())))
						}
					case ssa.CallInstruction:
						cc := x.Common()
						if cc.IsInvoke() {
							if n, ok := cc.Value.Type().(*types.Named); ok && (e.isPurePkg(n.Obj().Pkg()) || n.Obj().Name() == "error") {
								continue
							}
							problems = append(problems, fmt.Sprintf("%s: dynamic call %s", posOf(e, x.Pos()), cc.Method.Name()))
							continue
						}
						switch callee := cc.Value.(type) {
						case *ssa.Builtin:
						case *ssa.Function:
							full := callee.String()
							if callee.Pkg != nil && e.isPurePkg(callee.Pkg.Pkg) {
								continue
							}
							if (callee.Pkg == nil || !inRepoPkg(callee.Pkg.Pkg)) && !fnInRepo(callee) {
								if !libOK(full) && !(callee.Signature.Recv() != nil && e.pureRecv(callee)) {
									problems = append(problems, fmt.Sprintf("%s: calls %s", posOf(e, x.Pos()), full))
								}
								continue
							}
							if !seen[callee] {
								seen[callee] = true
								work = append(work, callee)
							}
						case *ssa.MakeClosure:
							if f, ok := callee.Fn.(*ssa.Function); ok && !seen[f] {
								seen[f] = true
								work = append(work, f)
							}
						default:
							problems = append(problems, fmt.Sprintf("%s: call through a function value", posOf(e, x.Pos())))
						}
					}
				}
			}
		}
		if len(problems) > 6 {
			problems = append(problems[:6], fmt.Sprintf("... %d more", len(problems)-6))
		}
		if len(problems) > 0 {
			r.Status = "fail"
			r.Detail = strings.Join(problems, "; ")
		}
		res = append(res, r)
	}
	return res, nil
}

// pureRecv: method of a type of a pure package (promoted through wrappers).
func (e *Engine) pureRecv(fn *ssa.Function) bool {
	t := fn.Signature.Recv().Type()
	if pt, ok := t.(*types.Pointer); ok {
		t = pt.Elem()
	}
	n, ok := t.(*types.Named)
	return ok && e.isPurePkg(n.Obj().Pkg())
}

// todoOrder (C04): no placeholder block survives translation. (1) generator.todo is written
// only by irBlockAddressConst (whose contract appends the new constant) and newGenerator;
// (2) in translate, every call that can reach irBlockAddressConst happens before the
// fix-up loop over gen.todo (its block dominates the loop), and the loop calls
// fixBlockAddressConst on every element; nothing that can create a blockaddress runs later.
func (e *Engine) todoOrder(prop string) ([]staticResult, []string) {
	pkg := e.pkgs[modPath+"/asm"]
	if pkg == nil {
		return nil, []string{"todo-order: package asm not loaded"}
	}
	tr := pkg.Func("translate")
	creator, err := e.lookupFunc(pkg, "(*generator).irBlockAddressConst")
	if tr == nil || err != nil {
		return nil, []string{"todo-order: contract-stale: translate / irBlockAddressConst not found"}
	}
	var res []staticResult
	// (1) writers of generator.todo
	r1 := staticResult{Name: "todo-writers", Func: pkg.Pkg.Path(), Kind: "todo-order", Status: "unsat",
		Detail: "generator.todo is assigned only in irBlockAddressConst (append of the new constant) and in newGenerator"}
	var p1 []string
	var all []*ssa.Function
	seenF := map[*ssa.Function]bool{}
	var addF func(f *ssa.Function)
	addF = func(f *ssa.Function) {
		if f == nil || seenF[f] || f.Blocks == nil {
			return
		}
		seenF[f] = true
		all = append(all, f)
		for _, a := range f.AnonFuncs {
			addF(a)
		}
	}
	for _, m := range pkg.Members {
		switch x := m.(type) {
		case *ssa.Function:
			addF(x)
		case *ssa.Type:
			for _, T := range []types.Type{x.Type(), types.NewPointer(x.Type())} {
				ms := e.prog.MethodSets.MethodSet(T)
				for i := 0; i < ms.Len(); i++ {
					if f := e.prog.MethodValue(ms.At(i)); f != nil && f.Pkg == pkg {
						addF(f)
					}
				}
			}
		}
	}
	nw := 0
	for _, f := range all {
		for _, b := range f.Blocks {
			for _, ins := range b.Instrs {
				st, ok := ins.(*ssa.Store)
				if !ok {
					continue
				}
				fa, ok := st.Addr.(*ssa.FieldAddr)
				if !ok {
					continue
				}
				n, ok := fa.X.Type().Underlying().(*types.Pointer).Elem().(*types.Named)
				if !ok || n.Obj().Name() != "generator" {
					continue
				}
				if n.Underlying().(*types.Struct).Field(fa.Field).Name() != "todo" {
					continue
				}
				nw++
				if f != creator && f.Name() != "newGenerator" {
					p1 = append(p1, fmt.Sprintf("%s: generator.todo assigned in %s", posOf(e, st.Pos()), f.Name()))
				}
			}
		}
	}
	if nw == 0 {
		p1 = append(p1, "no assignment of generator.todo found (contract-stale)")
	}
	if len(p1) > 0 {
		r1.Status, r1.Detail = "fail", strings.Join(p1, "; ")
	}
	res = append(res, r1)
	// (2) order in translate
	r2 := staticResult{Name: "todo-order:translate", Func: tr.String(), Kind: "todo-order", Pos: posOf(e, tr.Pos()), Status: "unsat",
		Detail: "in translate, every call that can reach irBlockAddressConst dominates the fix-up loop over gen.todo, which applies fixBlockAddressConst to every element"}
	var p2 []string
	// functions that can reach the creator
	reach := map[*ssa.Function]bool{creator: true}
	for changed := true; changed; {
		changed = false
		for _, f := range all {
			if reach[f] {
				continue
			}
			for _, c := range e.callees(f) {
				if reach[c] {
					reach[f] = true
					changed = true
					break
				}
			}
		}
	}
	// the fix-up loop: the block calling fixBlockAddressConst, its loop header
	var fixCall *ssa.Call
	for _, b := range tr.Blocks {
		for _, ins := range b.Instrs {
			if c, ok := ins.(*ssa.Call); ok {
				if f, ok := c.Call.Value.(*ssa.Function); ok && f.Name() == "fixBlockAddressConst" {
					fixCall = c
				}
			}
		}
	}
	if fixCall == nil {
		p2 = append(p2, "translate does not call fixBlockAddressConst")
	} else {
		// loop header: the nearest dominator of the call's block that has a back edge
		var head *ssa.BasicBlock
		for d := fixCall.Block(); d != nil && head == nil; d = d.Idom() {
			for _, p := range d.Preds {
				if d.Dominates(p) {
					head = d
				}
			}
		}
		if head == nil {
			p2 = append(p2, "fixBlockAddressConst is not called in a loop")
		} else {
			// the loop ranges over gen.todo: a load of field todo feeds the range
			ranged := false
			for d := head.Idom(); d != nil && !ranged; d = d.Idom() {
				for _, ins := range d.Instrs {
					if fa, ok := ins.(*ssa.FieldAddr); ok {
						if n, ok := fa.X.Type().Underlying().(*types.Pointer).Elem().(*types.Named); ok && n.Obj().Name() == "generator" &&
							n.Underlying().(*types.Struct).Field(fa.Field).Name() == "todo" {
							ranged = true
						}
					}
				}
				if len(d.Succs) > 0 && d != head.Idom() {
					break
				}
			}
			if !ranged {
				p2 = append(p2, "the fix-up loop does not range over gen.todo")
			}
			// the loop must not be left early except on error: the only exits are the range end and the error return
			for _, b := range tr.Blocks {
				for _, ins := range b.Instrs {
					ci, ok := ins.(ssa.CallInstruction)
					if !ok {
						continue
					}
					var cs []*ssa.Function
					if f, ok := ci.Common().Value.(*ssa.Function); ok {
						cs = []*ssa.Function{f}
					} else if ci.Common().IsInvoke() {
						cs = e.dynamicTargets(ci.Common())
					}
					for _, c := range cs {
						if !reach[c] {
							continue
						}
						if !(b.Dominates(head) && b != head) {
							p2 = append(p2, fmt.Sprintf("%s: %s can create a blockaddress constant but does not precede the fix-up loop", posOf(e, ins.Pos()), c.Name()))
						}
					}
				}
			}
		}
	}
	if len(p2) > 0 {
		r2.Status, r2.Detail = "fail", strings.Join(p2, "; ")
	}
	res = append(res, r2)
	return res, nil
}


// keepsFrames discharges the `keeps T.F, mapof(T.F)` clauses of the units of a property: a unit that makes
// calls with unknown effects (`assigns anything` callees, callees without a contract) may rely on the kept
// memory surviving those calls only if nothing reachable from any of its callees -- statically, through
// closures, and through every /repo implementation of a dynamically called method -- stores to the field T.F
// of a shared object (resp. updates a shared map of that field's type). One obligation per unit and clause.
func (e *Engine) keepsFrames(prop string) ([]staticResult, []string) {
	var res []staticResult
	var fns []*ssa.Function
	for fn, con := range e.cons {
		if len(con.Keeps) > 0 && hasProp(con.Props, prop) {
			fns = append(fns, fn)
		}
	}
	sort.Slice(fns, func(i, j int) bool { return fns[i].String() < fns[j].String() })
	type reachInfo struct {
		fns     []*ssa.Function
		unknown []string
	}
	reachCache := map[*ssa.Function]*reachInfo{}
	reach := func(root *ssa.Function) *reachInfo {
		if ri, ok := reachCache[root]; ok {
			return ri
		}
		ri := &reachInfo{}
		seen := map[*ssa.Function]bool{}
		var work []*ssa.Function
		push := func(f *ssa.Function) {
			if f != nil && !seen[f] {
				seen[f] = true
				work = append(work, f)
			}
		}
		push(root)
		for len(work) > 0 {
			fn := work[0]
			work = work[1:]
			if !fnInRepo(fn) || fn.Blocks == nil {
				continue // library code cannot name /repo's unexported fields or maps (no reflection in the subset)
			}
			ri.fns = append(ri.fns, fn)
			for _, c := range e.callees(fn) {
				push(c)
			}
			for _, b := range fn.Blocks {
				for _, ins := range b.Instrs {
					ci, ok := ins.(ssa.CallInstruction)
					if !ok || ci.Common().IsInvoke() {
						continue
					}
					switch ci.Common().Value.(type) {
					case *ssa.Function, *ssa.MakeClosure, *ssa.Builtin:
					default:
						ri.unknown = append(ri.unknown, fmt.Sprintf("%s: call through a function value in %s", posOf(e, ins.Pos()), fn.Name()))
					}
				}
			}
		}
		reachCache[root] = ri
		return ri
	}
	for _, unit := range fns {
		con := e.cons[unit]
		uname := strings.Replace(unit.String(), modPath+"/", "", -1)
		// everything reachable from the callees of the unit (the unit's own stores are what it is verified for)
		var all []*ssa.Function
		var unknown []string
		seen := map[*ssa.Function]bool{}
		for _, c := range e.callees(unit) {
			ri := reach(c)
			for _, f := range ri.fns {
				if !seen[f] {
					seen[f] = true
					all = append(all, f)
				}
			}
			unknown = append(unknown, ri.unknown...)
		}
		for _, g := range con.Keeps {
			if sf := e.findSpec(con.Pkg, g); sf != nil && sf.Ghost {
				continue
			}
			r := staticResult{Name: "keeps:" + uname + ":" + g, Func: unit.String(), Kind: "keeps", Pos: posOf(e, unit.Pos()), Status: "unsat"}
			kind, d := "field", g
			if strings.HasPrefix(g, "mapof(") {
				kind, d = "map", g[6:len(g)-1]
			} else if strings.HasPrefix(g, "elems(") {
				kind, d = "elems", g[6:len(g)-1]
			}
			i := strings.LastIndex(d, ".")
			var stT types.Type
			var err error
			if i > 0 {
				stT, err = e.resolveType(con.Pkg, d[:i])
			}
			if i <= 0 || err != nil {
				r.Status, r.Detail = "fail", "cannot resolve "+g
				res = append(res, r)
				continue
			}
			st, _ := stT.Underlying().(*types.Struct)
			fidx := -1
			for k := 0; st != nil && k < st.NumFields(); k++ {
				if st.Field(k).Name() == d[i+1:] {
					fidx = k
				}
			}
			if fidx < 0 {
				r.Status, r.Detail = "fail", "unsupported designator "+g
				res = append(res, r)
				continue
			}
			var problems []string
			for _, fn := range all {
				for _, b := range fn.Blocks {
					for _, ins := range b.Instrs {
						switch x := ins.(type) {
						case *ssa.Store:
							if fa, ok := x.Addr.(*ssa.FieldAddr); ok && kind == "field" && fa.Field == fidx {
								if types.Identical(fa.X.Type().Underlying().(*types.Pointer).Elem(), stT) && !freshOrigin(fa.X, map[ssa.Value]bool{}) {
									problems = append(problems, fmt.Sprintf("%s: %s stores to %s of a shared object", posOf(e, x.Pos()), fn.Name(), d))
								}
							}
							// elems(T.F): a store to an element of a shared slice (or array) with that element type
							if ia, ok := x.Addr.(*ssa.IndexAddr); ok && kind == "elems" {
								sl, isSl := st.Field(fidx).Type().Underlying().(*types.Slice)
								if !isSl {
									continue
								}
								var et types.Type
								switch u := ia.X.Type().Underlying().(type) {
								case *types.Slice:
									et = u.Elem()
								case *types.Pointer:
									if at, ok := u.Elem().Underlying().(*types.Array); ok {
										et = at.Elem()
									}
								}
								if et != nil && types.Identical(et, sl.Elem()) && !freshOrigin(ia.X, map[ssa.Value]bool{}) {
									problems = append(problems, fmt.Sprintf("%s: %s stores to an element of a shared []%s", posOf(e, x.Pos()), fn.Name(), sl.Elem()))
								}
							}
						case *ssa.MapUpdate:
							if kind != "map" || !types.Identical(x.Map.Type(), st.Field(fidx).Type()) || freshOrigin(x.Map, map[ssa.Value]bool{}) {
								continue
							}
							problems = append(problems, fmt.Sprintf("%s: %s updates a shared %s", posOf(e, x.Pos()), fn.Name(), x.Map.Type()))
						case ssa.CallInstruction:
							if bi, ok := x.Common().Value.(*ssa.Builtin); ok && kind == "map" && (bi.Name() == "delete" || bi.Name() == "clear") && len(x.Common().Args) > 0 && types.Identical(x.Common().Args[0].Type(), st.Field(fidx).Type()) {
								problems = append(problems, fmt.Sprintf("%s: %s deletes from a shared %s", posOf(e, x.Pos()), fn.Name(), x.Common().Args[0].Type()))
							}
						}
					}
				}
			}
			if kind == "field" {
				// a pointer to the field handed out (&x.F) could be written through elsewhere
				for _, fn := range all {
					for _, b := range fn.Blocks {
						for _, ins := range b.Instrs {
							fa, ok := ins.(*ssa.FieldAddr)
							if !ok || fa.Field != fidx || !types.Identical(fa.X.Type().Underlying().(*types.Pointer).Elem(), stT) || freshOrigin(fa.X, map[ssa.Value]bool{}) {
								continue
							}
							for _, ref := range *fa.Referrers() {
								switch u := ref.(type) {
								case *ssa.UnOp, *ssa.FieldAddr, *ssa.IndexAddr, *ssa.DebugRef:
								case *ssa.Store:
									if u.Addr != fa {
										problems = append(problems, fmt.Sprintf("%s: %s stores the address of %s", posOf(e, u.Pos()), fn.Name(), d))
									}
								default:
									problems = append(problems, fmt.Sprintf("%s: %s lets the address of %s escape", posOf(e, ins.Pos()), fn.Name(), d))
								}
							}
						}
					}
				}
			}
			problems = append(problems, unknown...)
			r.Detail = fmt.Sprintf("none of the %d /repo functions reachable from the calls made by %s writes %s", len(all), uname, g)
			if len(problems) > 0 {
				if len(problems) > 5 {
					problems = append(problems[:5], fmt.Sprintf("... %d more", len(problems)-5))
				}
				r.Status, r.Detail = "fail", strings.Join(problems, "; ")
			}
			res = append(res, r)
		}
	}
	return res, nil
}


// indexWriters: the indices of IR top-level entities (the map-typed fields of asm.newIndex) bind every key to
// one object for the whole translation: each index has a single function that stores into it (its creator) --
// and, the exception the property documents, irFuncAttribute when it materialises an undefined attribute
// group. A second function storing into an index would leave earlier uses bound to an object the module no
// longer lists.
func (e *Engine) indexWriters(prop string) ([]staticResult, []string) {
	pkg := e.pkgs[modPath+"/asm"]
	if pkg == nil {
		return nil, []string{"index-writers: package asm not loaded"}
	}
	tn, _ := pkg.Pkg.Scope().Lookup("newIndex").(*types.TypeName)
	if tn == nil {
		return nil, []string{"index-writers: contract-stale: type newIndex not found"}
	}
	st, ok := tn.Type().Underlying().(*types.Struct)
	if !ok {
		return nil, []string{"index-writers: contract-stale: newIndex is not a struct"}
	}
	var res []staticResult
	for fi := 0; fi < st.NumFields(); fi++ {
		if _, isMap := st.Field(fi).Type().Underlying().(*types.Map); !isMap {
			continue
		}
		fname := st.Field(fi).Name()
		r := staticResult{Name: "index-writers:" + fname, Func: pkg.Pkg.Path(), Kind: "index-writers", Status: "unsat"}
		var writers, problems, creators, replacers []string
		for _, mem := range pkg.Members {
			var fns []*ssa.Function
			switch m := mem.(type) {
			case *ssa.Function:
				fns = append(fns, m)
			case *ssa.Type:
				for _, T := range []types.Type{m.Type(), types.NewPointer(m.Type())} {
					ms := e.prog.MethodSets.MethodSet(T)
					for i := 0; i < ms.Len(); i++ {
						if f := e.prog.MethodValue(ms.At(i)); f != nil && f.Pkg == pkg {
							fns = append(fns, f)
						}
					}
				}
			}
			for len(fns) > 0 {
				fn := fns[0]
				fns = append(fns[1:], fn.AnonFuncs...)
				for _, b := range fn.Blocks {
					for _, ins := range b.Instrs {
						isWrite := false
						var mp ssa.Value
						switch x := ins.(type) {
						case *ssa.MapUpdate:
							mp, isWrite = x.Map, true
						case ssa.CallInstruction:
							if bi, ok := x.Common().Value.(*ssa.Builtin); ok && (bi.Name() == "delete" || bi.Name() == "clear") && len(x.Common().Args) > 0 {
								mp, isWrite = x.Common().Args[0], true
							}
						case *ssa.Store:
							// the map itself replaced
							if fa, ok := x.Addr.(*ssa.FieldAddr); ok && fa.Field == fi && types.Identical(fa.X.Type().Underlying().(*types.Pointer).Elem(), tn.Type()) && fn.Name() != "newGenerator" {
								replacers = append(replacers, fn.Name())
							}
						}
						if !isWrite {
							continue
						}
						ld, ok := mp.(*ssa.UnOp)
						if !ok {
							continue
						}
						fa, ok := ld.X.(*ssa.FieldAddr)
						if !ok || fa.Field != fi || !types.Identical(fa.X.Type().Underlying().(*types.Pointer).Elem(), tn.Type()) {
							continue
						}
						name := fn.Name()
						seen := false
						for _, w := range writers {
							if w == name {
								seen = true
							}
						}
						if !seen {
							writers = append(writers, name)
						}
						if !seen && !(name == "irFuncAttribute" && fname == "attrGroupDefs") {
							creators = append(creators, name)
						}
					}
				}
			}
		}
		sort.Strings(writers)
		sort.Strings(creators)
		// one creator per index (besides the documented exception): a second function storing into the index
		// rebinds keys that earlier uses have already resolved
		if len(creators) > 1 {
			problems = append(problems, fmt.Sprintf("the index %s is written by more than one function: %s", fname, strings.Join(creators, ", ")))
		}
		for _, rp := range replacers {
			if len(creators) != 1 || rp != creators[0] {
				problems = append(problems, fmt.Sprintf("%s replaces the map of the index %s", rp, fname))
			}
		}
		r.Detail = fmt.Sprintf("the index %s is written only by %s", fname, strings.Join(writers, ", "))
		if len(writers) == 0 {
			r.Status, r.Detail = "fail", "contract-stale: no writer of the index "+fname+" found"
		}
		if len(problems) > 0 {
			sort.Strings(problems)
			r.Status, r.Detail = "fail", strings.Join(problems, "; ")
		}
		res = append(res, r)
	}
	if len(res) == 0 {
		return nil, []string{"index-writers: contract-stale: newIndex has no map fields"}
	}
	return res, nil
}


// noSharedState: the properties quantify over inputs, not over what the process did before -- a parse, a print or
// a constructor call must not depend on earlier calls through package-level state. One obligation per loaded
// /repo package: (1) no function outside the package initialiser stores to a package-level variable, and (2)
// every package-level variable is blank, a table of plain values (basic types, strings, arrays of them, maps from a
// plain key to a string: the generated keyword tables), a singleton of the package's own types (pointer to a
// struct type declared in the package: types.I32, constant.True, metadata.Null; clients are assumed not to mutate
// them, A5), or the debug logger. A cache, pool or shared slice introduced at package level fails (2); a write to
// an existing variable fails (1).
func (e *Engine) noSharedState(prop string) ([]staticResult, []string) {
	var res []staticResult
	var paths []string
	for path, pkg := range e.pkgs {
		if pkg != nil && inRepoPkg(pkg.Pkg) {
			paths = append(paths, path)
		}
	}
	sort.Strings(paths)
	var plain func(t types.Type, d int) bool
	plain = func(t types.Type, d int) bool {
		if d > 4 {
			return false
		}
		switch u := t.Underlying().(type) {
		case *types.Basic:
			return u.Kind() != types.UnsafePointer
		case *types.Array:
			return plain(u.Elem(), d+1)
		}
		return false
	}
	for _, path := range paths {
		pkg := e.pkgs[path]
		short := strings.TrimPrefix(path, modPath+"/")
		r := staticResult{Name: "no-shared-state:" + short, Func: path, Kind: "no-shared-state", Status: "unsat"}
		var problems []string
		nvars := 0
		var names []string
		for n := range pkg.Members {
			names = append(names, n)
		}
		sort.Strings(names)
		for _, n := range names {
			g, ok := pkg.Members[n].(*ssa.Global)
			if !ok || n == "_" || strings.HasPrefix(n, "init$") {
				continue
			}
			nvars++
			vt := g.Type().(*types.Pointer).Elem()
			okKind := plain(vt, 0)
			if m, isMap := vt.Underlying().(*types.Map); isMap && plain(m.Key(), 0) {
				if b, isB := m.Elem().Underlying().(*types.Basic); isB && b.Info()&types.IsString != 0 {
					okKind = true // generated keyword table
				}
			}
			if pt, isPtr := vt.Underlying().(*types.Pointer); isPtr {
				if nt, isNamed := pt.Elem().(*types.Named); isNamed {
					if _, isSt := nt.Underlying().(*types.Struct); isSt && nt.Obj().Pkg() == pkg.Pkg {
						okKind = true // singleton of the package's own type
					}
					if nt.Obj().Pkg() != nil && nt.Obj().Pkg().Path() == "log" && nt.Obj().Name() == "Logger" {
						okKind = true
					}
				}
			}
			if !okKind {
				problems = append(problems, fmt.Sprintf("%s: package-level variable %s of type %s (state shared between calls)", posOf(e, g.Pos()), n, vt))
			}
		}
		var fns []*ssa.Function
		for _, mem := range pkg.Members {
			switch m := mem.(type) {
			case *ssa.Function:
				fns = append(fns, m)
			case *ssa.Type:
				for _, T := range []types.Type{m.Type(), types.NewPointer(m.Type())} {
					ms := e.prog.MethodSets.MethodSet(T)
					for i := 0; i < ms.Len(); i++ {
						if f := e.prog.MethodValue(ms.At(i)); f != nil && f.Pkg == pkg {
							fns = append(fns, f)
						}
					}
				}
			}
		}
		seen := map[*ssa.Function]bool{}
		for len(fns) > 0 {
			fn := fns[0]
			fns = fns[1:]
			if seen[fn] {
				continue
			}
			seen[fn] = true
			fns = append(fns, fn.AnonFuncs...)
			if fn.Name() == "init" || strings.HasPrefix(fn.Name(), "init#") || fn.Synthetic != "" {
				continue
			}
			for _, b := range fn.Blocks {
				for _, ins := range b.Instrs {
					st, ok := ins.(*ssa.Store)
					if !ok {
						continue
					}
					if g, ok := st.Addr.(*ssa.Global); ok {
						problems = append(problems, fmt.Sprintf("%s: %s stores to the package-level variable %s", posOf(e, st.Pos()), fn.Name(), g.Name()))
					}
				}
			}
		}
		sort.Strings(problems)
		r.Detail = fmt.Sprintf("package %s: %d package-level variables, all tables, own singletons or the logger; none is written outside the package initialiser", short, nvars)
		if len(problems) > 0 {
			if len(problems) > 6 {
				problems = append(problems[:6], fmt.Sprintf("... %d more", len(problems)-6))
			}
			r.Status, r.Detail = "fail", strings.Join(problems, "; ")
		}
		res = append(res, r)
	}
	if len(res) == 0 {
		return nil, []string{"no-shared-state: no /repo package loaded"}
	}
	return res, nil
}


// stringsViaOrder: natsort.Strings -- the sort behind every naturally ordered list of the printed module -- is
// sort.Sort(Order(a)): the relation it sorts by is Order.Less, which is under contract (it returns natsort.Less of
// the two elements). A Strings that sorts by keys of its own would sort by an unverified relation.
func (e *Engine) stringsViaOrder(prop string) ([]staticResult, []string) {
	pkg := e.pkgs[modPath+"/internal/natsort"]
	if pkg == nil {
		return nil, []string{"strings-via-order: package internal/natsort not loaded"}
	}
	fn := pkg.Func("Strings")
	r := staticResult{Name: "strings-via-order", Func: pkg.Pkg.Path(), Kind: "strings-via-order", Status: "unsat",
		Detail: "natsort.Strings(a) is the single call sort.Sort(Order(a))"}
	if fn == nil {
		return nil, []string{"strings-via-order: contract-stale: natsort.Strings not found"}
	}
	r.Pos = posOf(e, fn.Pos())
	ncalls, okCall := 0, false
	for _, b := range fn.Blocks {
		for _, ins := range b.Instrs {
			ci, ok := ins.(ssa.CallInstruction)
			if !ok {
				continue
			}
			callee, _ := ci.Common().Value.(*ssa.Function)
			if _, isBuiltin := ci.Common().Value.(*ssa.Builtin); isBuiltin {
				continue // ssa:deferstack and the like
			}
			ncalls++
			if callee == nil || callee.String() != "sort.Sort" || len(ci.Common().Args) != 1 {
				continue
			}
			mi, ok := ci.Common().Args[0].(*ssa.MakeInterface)
			if !ok {
				continue
			}
			if n, ok := mi.X.Type().(*types.Named); ok && n.Obj().Name() == "Order" && n.Obj().Pkg() == pkg.Pkg {
				// the value converted to Order is the parameter itself
				src := mi.X
				for {
					if ct, ok := src.(*ssa.ChangeType); ok {
						src = ct.X
						continue
					}
					if u, ok := src.(*ssa.UnOp); ok && u.Op == token.MUL {
						// NaiveForm: load of the parameter's cell
						if a, ok := u.X.(*ssa.Alloc); ok {
							for _, ref := range *a.Referrers() {
								if st, ok := ref.(*ssa.Store); ok && st.Addr == a {
									src = st.Val
								}
							}
							if _, isParam := src.(*ssa.Parameter); isParam {
								break
							}
						}
					}
					break
				}
				if p, ok := src.(*ssa.Parameter); ok && len(fn.Params) == 1 && p == fn.Params[0] {
					okCall = true
				}
			}
		}
	}
	if len(fn.Blocks) != 1 || ncalls != 1 || !okCall {
		r.Status, r.Detail = "fail", fmt.Sprintf("natsort.Strings is not the single call sort.Sort(Order(a)) (%d blocks, %d calls)", len(fn.Blocks), ncalls)
	}
	return []staticResult{r}, nil
}


// tableOf: addr is the address of an element of a package-level array (directly, or through a slice of it).
func tableOf(addr ssa.Value) *ssa.Global {
	ia, ok := addr.(*ssa.IndexAddr)
	if !ok {
		return nil
	}
	switch b := ia.X.(type) {
	case *ssa.Global:
		return b
	case *ssa.Slice:
		if g, ok := b.X.(*ssa.Global); ok {
			return g
		}
	}
	return nil
}

// immutableTable: g is a package-level array of basic values of a /repo package, and in that package (outside the
// package initialiser) g is only ever indexed or sliced for reading: no store through it, its address never escapes.
func immutableTable(g *ssa.Global) bool {
	if g.Pkg == nil || !inRepoPkg(g.Pkg.Pkg) {
		return false
	}
	arr, ok := g.Type().(*types.Pointer).Elem().Underlying().(*types.Array)
	if !ok {
		return false
	}
	if b, ok := arr.Elem().Underlying().(*types.Basic); !ok || b.Kind() == types.UnsafePointer {
		return false
	}
	readOnly := func(v ssa.Value) bool {
		// v: an element address; every use is a load
		for _, r := range *v.Referrers() {
			if u, ok := r.(*ssa.UnOp); !ok || u.Op != token.MUL {
				return false
			}
		}
		return true
	}
	var fns []*ssa.Function
	var add func(f *ssa.Function)
	add = func(f *ssa.Function) {
		fns = append(fns, f)
		for _, a := range f.AnonFuncs {
			add(a)
		}
	}
	for _, mem := range g.Pkg.Members {
		switch m := mem.(type) {
		case *ssa.Function:
			add(m)
		case *ssa.Type:
			for _, t := range []types.Type{m.Type(), types.NewPointer(m.Type())} {
				ms := g.Pkg.Prog.MethodSets.MethodSet(t)
				for i := 0; i < ms.Len(); i++ {
					if f := g.Pkg.Prog.MethodValue(ms.At(i)); f != nil && f.Pkg == g.Pkg {
						add(f)
					}
				}
			}
		}
	}
	for _, f := range fns {
		if f.Name() == "init" && f.Parent() == nil {
			continue
		}
		for _, b := range f.Blocks {
			for _, ins := range b.Instrs {
				uses := false
				for _, op := range ins.Operands(nil) {
					if op != nil && *op == ssa.Value(g) {
						uses = true
					}
				}
				if !uses {
					continue
				}
				switch x := ins.(type) {
				case *ssa.IndexAddr:
					if x.X != ssa.Value(g) || !readOnly(x) {
						return false
					}
				case *ssa.Slice:
					if x.X != ssa.Value(g) {
						return false
					}
					for _, r := range *x.Referrers() {
						switch y := r.(type) {
						case *ssa.IndexAddr:
							if y.X != ssa.Value(x) || !readOnly(y) {
								return false
							}
						case *ssa.Call:
							if bi, ok := y.Call.Value.(*ssa.Builtin); !ok || (bi.Name() != "len" && bi.Name() != "cap") {
								return false
							}
						case *ssa.DebugRef:
						default:
							return false
						}
					}
				case *ssa.DebugRef:
				default:
					return false
				}
			}
		}
	}
	return true
}


// reslicedShared: v may be a reslicing s[i:j] of a slice that is not allocated in this activation (directly, through a
// local variable, or through a phi).
func reslicedShared(v ssa.Value, seen map[ssa.Value]bool) bool {
	if seen[v] {
		return false
	}
	seen[v] = true
	switch x := v.(type) {
	case *ssa.Slice:
		if _, isStr := x.X.Type().Underlying().(*types.Basic); isStr {
			return false
		}
		if _, isSlice := x.X.Type().Underlying().(*types.Slice); !isSlice {
			return false // slicing an array variable: s := arr[:]
		}
		return !freshOrigin(x.X, map[ssa.Value]bool{})
	case *ssa.Phi:
		for _, e := range x.Edges {
			if reslicedShared(e, seen) {
				return true
			}
		}
	case *ssa.UnOp:
		if x.Op != token.MUL {
			return false
		}
		if a, ok := x.X.(*ssa.Alloc); ok && a.Referrers() != nil {
			for _, r := range *a.Referrers() {
				if st, ok := r.(*ssa.Store); ok && st.Addr == a && reslicedShared(st.Val, seen) {
					return true
				}
			}
		}
	}
	return false
}
