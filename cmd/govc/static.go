package main

// Static obligations: checks implemented directly over go/types and go/ssa
// (mechanically derived expectations, store sweeps). Each returns named
// obligations with status "unsat" (holds) or "fail".

type staticResult struct {
	Name    string
	Func    string
	Kind    string
	Pos     string
	Status  string
	Detail  string
	Witness string
}

func (e *Engine) runStatic(name, prop string) ([]staticResult, []string) {
	switch name {
	}
	return nil, []string{"unknown static check " + name}
}
