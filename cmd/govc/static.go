package main

// Static obligations: frame conditions checked store by store over go/ssa
// (the `assigns` clause of every function reachable from the observers is
// "nothing but the whitelisted caches and ID fields"), and lock dominance.

import (
	"fmt"
	"go/token"
	"go/types"
	"sort"
	"strings"

	"golang.org/x/tools/go/ssa"
)

type staticResult struct {
	Name    string
	Func    string
	Kind    string
	Pos     string
	Status  string
	Detail  string
	Witness string
}

func (e *Engine) runStatic(name, prop string) ([]staticResult, []string) {
	switch name {
	case "observer-frames":
		return e.observerFrames(prop)
	case "lock-dominates":
		return e.lockDominates(prop)
	case "ident-impls":
		return e.identImpls(prop)
	case "assign-first":
		return e.assignFirst(prop)
	case "alloc-sites":
		return e.allocSites(prop)
	}
	return nil, []string{"unknown static check " + name}
}

func inRepoPkg(p *types.Package) bool {
	return p != nil && (p.Path() == modPath || strings.HasPrefix(p.Path(), modPath+"/"))
}

func fnInRepo(fn *ssa.Function) bool {
	for fn.Parent() != nil {
		fn = fn.Parent()
	}
	if fn.Pkg != nil {
		return inRepoPkg(fn.Pkg.Pkg)
	}
	if fn.Object() != nil {
		return inRepoPkg(fn.Object().Pkg())
	}
	// synthetic wrappers of repo methods
	if recv := fn.Signature.Recv(); recv != nil {
		t := recv.Type()
		if p, ok := t.(*types.Pointer); ok {
			t = p.Elem()
		}
		if n, ok := t.(*types.Named); ok {
			return inRepoPkg(n.Obj().Pkg())
		}
	}
	return false
}

var observerNames = map[string]bool{"String": true, "LLString": true, "Ident": true, "Name": true, "ID": true, "IsUnnamed": true,
	"Type": true, "Operands": true, "Succs": true, "Sig": true, "WriteTo": true, "MDAttachments": true, "Equal": true, "IsDistinct": true}

// whitelisted cache / ID fields that observers may write
var cacheFields = map[string]bool{"Typ": true, "Successors": true, "LocalID": true, "GlobalID": true}

// repoMethodsNamed returns every method of a /repo type with the given name
// that could be the target of a dynamic call with this signature.
func (e *Engine) dynamicTargets(cc *ssa.CallCommon) []*ssa.Function {
	var out []*ssa.Function
	iface, ok := cc.Value.Type().Underlying().(*types.Interface)
	if !ok {
		return nil
	}
	for _, p := range e.prog.AllPackages() {
		if !inRepoPkg(p.Pkg) {
			continue
		}
		for _, m := range p.Members {
			tn, ok := m.(*ssa.Type)
			if !ok {
				continue
			}
			for _, T := range []types.Type{tn.Type(), types.NewPointer(tn.Type())} {
				if _, isI := T.Underlying().(*types.Interface); isI {
					continue
				}
				if !types.Implements(T, iface) {
					continue
				}
				sel := e.prog.MethodSets.MethodSet(T).Lookup(cc.Method.Pkg(), cc.Method.Name())
				if sel == nil {
					continue
				}
				if fn := e.prog.MethodValue(sel); fn != nil {
					out = append(out, fn)
				}
			}
		}
	}
	return out
}

func (e *Engine) callees(fn *ssa.Function) []*ssa.Function {
	var out []*ssa.Function
	for _, b := range fn.Blocks {
		for _, ins := range b.Instrs {
			switch x := ins.(type) {
			case ssa.CallInstruction:
				cc := x.Common()
				if cc.IsInvoke() {
					out = append(out, e.dynamicTargets(cc)...)
					continue
				}
				switch c := cc.Value.(type) {
				case *ssa.Function:
					out = append(out, c)
				case *ssa.MakeClosure:
					out = append(out, c.Fn.(*ssa.Function))
				}
			case *ssa.MakeClosure:
				out = append(out, x.Fn.(*ssa.Function))
			}
		}
	}
	out = append(out, fn.AnonFuncs...)
	return out
}

// origin classifies where a reference-like value comes from: true = memory
// allocated in this activation (or nil/constant), false = possibly shared.
func freshOrigin(v ssa.Value, seen map[ssa.Value]bool) bool {
	if seen[v] {
		return true
	}
	seen[v] = true
	switch x := v.(type) {
	case *ssa.Alloc, *ssa.MakeSlice, *ssa.MakeMap, *ssa.MakeClosure, *ssa.Const, *ssa.MakeInterface:
		if mi, ok := x.(*ssa.MakeInterface); ok {
			return freshOrigin(mi.X, seen)
		}
		return true
	case *ssa.Slice:
		return freshOrigin(x.X, seen)
	case *ssa.ChangeType:
		return freshOrigin(x.X, seen)
	case *ssa.Convert:
		return true // string <-> []byte conversions copy
	case *ssa.Phi:
		for _, e := range x.Edges {
			if !freshOrigin(e, seen) {
				return false
			}
		}
		return true
	case *ssa.FieldAddr:
		return freshOrigin(x.X, seen)
	case *ssa.IndexAddr:
		return freshOrigin(x.X, seen)
	case *ssa.Call:
		if b, ok := x.Call.Value.(*ssa.Builtin); ok && b.Name() == "append" {
			return freshOrigin(x.Call.Args[0], seen)
		}
		if f, ok := x.Call.Value.(*ssa.Function); ok {
			// constructors of fresh values
			full := f.String()
			if strings.HasPrefix(f.Name(), "New") || full == "strings.Split" || full == "strings.Fields" || full == "fmt.Sprintf" {
				return true
			}
		}
		return false
	case *ssa.UnOp:
		if x.Op != token.MUL {
			return false
		}
		// load from a local cell: all values ever stored to the cell must be fresh
		a, ok := x.X.(*ssa.Alloc)
		if !ok {
			return false
		}
		refs := a.Referrers()
		if refs == nil {
			return false
		}
		for _, r := range *refs {
			if st, ok := r.(*ssa.Store); ok && st.Addr == a {
				if !freshOrigin(st.Val, seen) {
					return false
				}
			}
		}
		return true
	}
	return false
}

type frameViolation struct {
	fn   *ssa.Function
	pos  token.Pos
	what string
}

func (e *Engine) frameViolations(fn *ssa.Function) []frameViolation {
	var out []frameViolation
	add := func(p token.Pos, f string, a ...interface{}) {
		out = append(out, frameViolation{fn, p, fmt.Sprintf(f, a...)})
	}
	for _, b := range fn.Blocks {
		for _, ins := range b.Instrs {
			switch x := ins.(type) {
			case *ssa.Store:
				switch a := x.Addr.(type) {
				case *ssa.Alloc:
					// local variable or fresh cell
				case *ssa.FieldAddr:
					if freshOrigin(a.X, map[ssa.Value]bool{}) {
						continue
					}
					pt := a.X.Type().Underlying().(*types.Pointer)
					st := pt.Elem().Underlying().(*types.Struct)
					fname := st.Field(a.Field).Name()
					if cacheFields[fname] {
						continue
					}
					// initialisation of the object just stored into a cache field (x.Typ.AddrSpace = ...)
					if ld, ok := a.X.(*ssa.UnOp); ok && ld.Op == token.MUL {
						if fa, ok := ld.X.(*ssa.FieldAddr); ok {
							bst := fa.X.Type().Underlying().(*types.Pointer).Elem().Underlying().(*types.Struct)
							if cacheFields[bst.Field(fa.Field).Name()] {
								continue
							}
						}
					}
					// fmtWriter is private to Module.WriteTo (allocated there, never stored or returned); its
					// methods are under contract for property C19
					if n, ok := pt.Elem().(*types.Named); ok && n.Obj().Name() == "fmtWriter" {
						continue
					}
					// field of a local struct value reached through nested FieldAddr on an Alloc is fresh (handled above)
					add(x.Pos(), "writes field %s of a shared %s", fname, pt.Elem())
				case *ssa.IndexAddr:
					if freshOrigin(a.X, map[ssa.Value]bool{}) {
						continue
					}
					add(x.Pos(), "writes an element of a shared %s", a.X.Type())
				case *ssa.Global:
					add(x.Pos(), "writes package variable %s", a.Name())
				case *ssa.FreeVar:
					// captured variable of the enclosing function: a local of the parent
				case *ssa.Parameter:
					// store through a pointer parameter: allowed for the ID setters only
					if pt, ok := a.Type().Underlying().(*types.Pointer); ok {
						if n, ok := pt.Elem().(*types.Named); ok && (n.Obj().Name() == "MetadataID") {
							continue
						}
					}
					add(x.Pos(), "writes through pointer parameter %s", a.Name())
				default:
					if freshOrigin(x.Addr, map[ssa.Value]bool{}) {
						continue
					}
					add(x.Pos(), "writes through %s", x.Addr.Type())
				}
			case *ssa.MapUpdate:
				if !freshOrigin(x.Map, map[ssa.Value]bool{}) {
					add(x.Pos(), "updates a shared map")
				}
			case *ssa.Call:
				if bi, ok := x.Call.Value.(*ssa.Builtin); ok {
					switch bi.Name() {
					case "copy", "delete":
						if !freshOrigin(x.Call.Args[0], map[ssa.Value]bool{}) {
							add(x.Pos(), "%s on shared memory", bi.Name())
						}
					}
				}
			case *ssa.Go:
				add(x.Pos(), "starts a goroutine")
			case *ssa.Send:
				add(x.Pos(), "channel send")
			}
		}
	}
	return out
}

// observerFrames: every function reachable from an observer method writes only
// fresh memory, the whitelisted caches (Typ, Successors) and ID fields.
func (e *Engine) observerFrames(prop string) ([]staticResult, []string) {
	var roots []*ssa.Function
	for _, p := range e.prog.AllPackages() {
		if !inRepoPkg(p.Pkg) || !(strings.Contains(p.Pkg.Path(), "/ir")) {
			continue
		}
		for _, m := range p.Members {
			tn, ok := m.(*ssa.Type)
			if !ok {
				continue
			}
			for _, T := range []types.Type{tn.Type(), types.NewPointer(tn.Type())} {
				ms := e.prog.MethodSets.MethodSet(T)
				for i := 0; i < ms.Len(); i++ {
					sel := ms.At(i)
					if !observerNames[sel.Obj().Name()] {
						continue
					}
					if fn := e.prog.MethodValue(sel); fn != nil && fnInRepo(fn) {
						roots = append(roots, fn)
					}
				}
			}
		}
	}
	if len(roots) == 0 {
		return nil, []string{"observer-frames: no observer methods found (packages not loaded?)"}
	}
	seen := map[*ssa.Function]bool{}
	var work []*ssa.Function
	for _, r := range roots {
		if !seen[r] {
			seen[r] = true
			work = append(work, r)
		}
	}
	for len(work) > 0 {
		f := work[0]
		work = work[1:]
		for _, c := range e.callees(f) {
			if c == nil || seen[c] || !fnInRepo(c) {
				continue
			}
			seen[c] = true
			work = append(work, c)
		}
	}
	var fns []*ssa.Function
	for f := range seen {
		if f.Blocks != nil && f.Synthetic == "" {
			fns = append(fns, f)
		}
	}
	sort.Slice(fns, func(i, j int) bool { return fns[i].String() < fns[j].String() })
	var res []staticResult
	for _, f := range fns {
		name := strings.Replace(f.String(), modPath+"/", "", -1)
		// mutators reachable only as part of (re)numbering are governed by their own contracts
		if f.Name() == "SetID" || f.Name() == "SetName" {
			continue
		}
		vs := e.frameViolations(f)
		r := staticResult{Name: "frame:" + name, Func: f.String(), Kind: "frame", Pos: posOf(e, f.Pos()), Status: "unsat",
			Detail: "every heap store of " + name + " targets memory allocated in the call, a cache field (Typ, Successors) or an ID field"}
		if len(vs) > 0 {
			r.Status = "fail"
			var ds []string
			for _, v := range vs {
				ds = append(ds, fmt.Sprintf("%s: %s", posOf(e, v.pos), v.what))
			}
			r.Detail = strings.Join(ds, "; ")
			r.Pos = posOf(e, vs[0].pos)
		}
		res = append(res, r)
	}
	return res, nil
}

func posOf(e *Engine, p token.Pos) string {
	if !p.IsValid() {
		return ""
	}
	ps := e.fset.Position(p)
	return fmt.Sprintf("%s:%d", strings.TrimPrefix(ps.Filename, e.repo+"/"), ps.Line)
}

// lockDominates: in the three ID-assignment functions, the mutex is taken before
// any ID is read or written and released by a deferred Unlock.
func (e *Engine) lockDominates(prop string) ([]staticResult, []string) {
	targets := []struct{ pkg, key string }{{modPath + "/ir", "(*Module).AssignGlobalIDs"}, {modPath + "/ir", "(*Module).AssignMetadataIDs"}, {modPath + "/ir", "(*Func).AssignIDs"}}
	var res []staticResult
	var errs []string
	for _, t := range targets {
		pkg := e.pkgs[t.pkg]
		if pkg == nil {
			errs = append(errs, "lock-dominates: package "+t.pkg+" not loaded")
			continue
		}
		fn, err := e.lookupFunc(pkg, t.key)
		if err != nil {
			errs = append(errs, "lock-dominates: contract-stale "+t.key+": "+err.Error())
			continue
		}
		r := staticResult{Name: "lock:" + t.key, Func: fn.String(), Kind: "lock-dominance", Pos: posOf(e, fn.Pos()), Status: "unsat",
			Detail: "mu.Lock() is the first effect of " + t.key + ", dominates every call and heap access, and mu.Unlock() is deferred right after it"}
		var lock *ssa.Call
		var lockBlock *ssa.BasicBlock
		lockIdx := -1
		deferOK := false
		var problems []string
		entry := fn.Blocks[0]
		for i, ins := range entry.Instrs {
			if c, ok := ins.(*ssa.Call); ok {
				if f, ok := c.Call.Value.(*ssa.Function); ok && f.String() == "(*sync.Mutex).Lock" {
					lock, lockBlock, lockIdx = c, entry, i
					break
				}
				if b, ok := c.Call.Value.(*ssa.Builtin); ok && strings.HasPrefix(b.Name(), "ssa:") {
					continue
				}
				problems = append(problems, fmt.Sprintf("%s: call before the lock is taken", posOf(e, c.Pos())))
			}
			if u, ok := ins.(*ssa.UnOp); ok && u.Op == token.MUL {
				if _, isAlloc := u.X.(*ssa.Alloc); !isAlloc {
					problems = append(problems, fmt.Sprintf("%s: heap read before the lock is taken", posOf(e, u.Pos())))
				}
			}
		}
		if lock == nil {
			problems = append(problems, "mu.Lock() is not called in the entry block")
		} else {
			// the next call-like instruction must be the deferred Unlock on the same mutex
			for _, ins := range lockBlock.Instrs[lockIdx+1:] {
				if d, ok := ins.(*ssa.Defer); ok {
					if f, ok := d.Call.Value.(*ssa.Function); ok && f.String() == "(*sync.Mutex).Unlock" {
						deferOK = true
					}
					break
				}
				if _, ok := ins.(ssa.CallInstruction); ok {
					break
				}
			}
			if !deferOK {
				problems = append(problems, "mu.Unlock() is not deferred immediately after mu.Lock()")
			}
			// no explicit Unlock elsewhere
			for _, b := range fn.Blocks {
				for _, ins := range b.Instrs {
					if c, ok := ins.(*ssa.Call); ok {
						if f, ok := c.Call.Value.(*ssa.Function); ok && f.String() == "(*sync.Mutex).Unlock" {
							problems = append(problems, fmt.Sprintf("%s: explicit Unlock inside the function", posOf(e, c.Pos())))
						}
					}
				}
			}
		}
		if len(problems) > 0 {
			r.Status = "fail"
			r.Detail = strings.Join(problems, "; ")
		}
		res = append(res, r)
	}
	return res, errs
}

// identImpls: the interface contracts of namedVar.{ID,SetID,IsUnnamed} and
// metadata.Definition.{ID,SetID} speak about abstract state (nvid/nvun/mdid).
// They are justified by (1) the field-level contracts of the six identifier
// methods below (verified deductively) and (2) this structural obligation:
// every type implementing the interface gets these methods by promotion from
// an identifier struct embedded by value (so distinct objects have distinct
// identifiers and nothing else happens in the call).
func (e *Engine) identImpls(prop string) ([]staticResult, []string) {
	type want struct {
		ifacePkg, iface string
		methods         map[string][]string // method -> allowed underlying functions
	}
	ir := modPath + "/ir"
	md := modPath + "/ir/metadata"
	wants := []want{
		{ir, "namedVar", map[string][]string{
			"ID":        {"(" + ir + ".LocalIdent).ID", "(" + ir + ".GlobalIdent).ID"},
			"SetID":     {"(*" + ir + ".LocalIdent).SetID", "(*" + ir + ".GlobalIdent).SetID"},
			"IsUnnamed": {"(" + ir + ".LocalIdent).IsUnnamed", "(" + ir + ".GlobalIdent).IsUnnamed"},
		}},
		{md, "Definition", map[string][]string{
			"ID":    {"(" + md + ".MetadataID).ID"},
			"SetID": {"(*" + md + ".MetadataID).SetID"},
		}},
	}
	var res []staticResult
	var errs []string
	for _, w := range wants {
		pp := e.ppkgs[w.ifacePkg]
		if pp == nil {
			errs = append(errs, "ident-impls: package "+w.ifacePkg+" not loaded")
			continue
		}
		obj := pp.Types.Scope().Lookup(w.iface)
		if obj == nil {
			errs = append(errs, "ident-impls: contract-stale: no interface "+w.iface)
			continue
		}
		it, ok := obj.Type().Underlying().(*types.Interface)
		if !ok {
			errs = append(errs, "ident-impls: "+w.iface+" is not an interface")
			continue
		}
		n := 0
		var impls []types.Type
		for _, p := range e.ppkgs {
			if p.Types == nil || !inRepoPkg(p.Types) {
				continue
			}
			sc := p.Types.Scope()
			for _, nm := range sc.Names() {
				tn, ok := sc.Lookup(nm).(*types.TypeName)
				if !ok || tn.IsAlias() {
					continue
				}
				if _, isI := tn.Type().Underlying().(*types.Interface); isI {
					continue
				}
				for _, cand := range []types.Type{tn.Type(), types.NewPointer(tn.Type())} {
					if types.Implements(cand, it) {
						impls = append(impls, cand)
						break
					}
				}
			}
		}
		sort.Slice(impls, func(i, j int) bool { return impls[i].String() < impls[j].String() })
		for _, T := range impls {
			ms := e.prog.MethodSets.MethodSet(T)
			var mnames []string
			for m := range w.methods {
				mnames = append(mnames, m)
			}
			sort.Strings(mnames)
			for _, m := range mnames {
				n++
				short := strings.Replace(T.String(), modPath+"/", "", -1)
				r := staticResult{Name: "ident-impl:" + short + "." + m, Func: T.String() + "." + m, Kind: "ident-impl", Status: "unsat",
					Detail: m + " of " + short + " is the promoted method of an identifier struct embedded by value"}
				var sel *types.Selection
				for i := 0; i < ms.Len(); i++ {
					if ms.At(i).Obj().Name() == m {
						sel = ms.At(i)
					}
				}
				if sel == nil {
					r.Status, r.Detail = "fail", "method not found"
					res = append(res, r)
					continue
				}
				// underlying declared method
				fobj := sel.Obj().(*types.Func)
				decl := e.prog.FuncValue(fobj)
				full := ""
				if decl != nil {
					full = decl.String()
				}
				okFn := false
				for _, a := range w.methods[m] {
					if a == full {
						okFn = true
					}
				}
				// the promotion path must go through fields embedded by value only
				byValue := true
				cur := T
				if p, ok := cur.Underlying().(*types.Pointer); ok {
					cur = p.Elem()
				}
				idx := sel.Index()
				for _, fi := range idx[:len(idx)-1] {
					st, ok := cur.Underlying().(*types.Struct)
					if !ok {
						byValue = false
						break
					}
					ft := st.Field(fi).Type()
					if _, isPtr := ft.Underlying().(*types.Pointer); isPtr {
						byValue = false
					}
					if _, isIfc := ft.Underlying().(*types.Interface); isIfc {
						byValue = false
					}
					cur = ft
				}
				r.Pos = posOf(e, fobj.Pos())
				switch {
				case !okFn:
					r.Status, r.Detail = "fail", m+" of "+short+" is "+full+", not one of the identifier methods under contract"
				case !byValue:
					r.Status, r.Detail = "fail", m+" of "+short+" is promoted through a pointer or interface field: two objects could share one identifier"
				}
				res = append(res, r)
			}
		}
		if n == 0 {
			errs = append(errs, "ident-impls: no implementation of "+w.iface+" found (vacuous)")
		}
	}
	return res, errs
}


// assignFirst: every print entry point runs the ID assignment of its receiver
// unconditionally and before anything else: the assigner call dominates every other
// call of the function (calls on the panic path of a failed assignment excepted).
// This is what turns "renumbering is position-derived" (C08/C14 units) into "what a
// print shows does not depend on earlier prints", and it is condition O3 of C13.
func (e *Engine) assignFirst(prop string) ([]staticResult, []string) {
	targets := []struct {
		pkg, key  string
		assigners []string
	}{
		{modPath + "/ir", "(*Func).LLString", []string{"(*" + modPath + "/ir.Func).AssignIDs"}},
		{modPath + "/ir", "(*Module).WriteTo", []string{"(*" + modPath + "/ir.Module).AssignGlobalIDs", "(*" + modPath + "/ir.Module).AssignMetadataIDs"}},
	}
	var res []staticResult
	var errs []string
	for _, t := range targets {
		pkg := e.pkgs[t.pkg]
		if pkg == nil {
			errs = append(errs, "assign-first: package "+t.pkg+" not loaded")
			continue
		}
		fn, err := e.lookupFunc(pkg, t.key)
		if err != nil {
			errs = append(errs, "assign-first: contract-stale "+t.key+": "+err.Error())
			continue
		}
		// blocks from which the function can only panic (error path of a failed assignment)
		panics := map[*ssa.BasicBlock]bool{}
		for _, b := range fn.Blocks {
			if len(b.Instrs) > 0 {
				if _, ok := b.Instrs[len(b.Instrs)-1].(*ssa.Panic); ok {
					panics[b] = true
				}
			}
		}
		isRecv := func(v ssa.Value) bool {
			if len(fn.Params) == 0 {
				return false
			}
			if v == fn.Params[0] {
				return true
			}
			if u, ok := v.(*ssa.UnOp); ok && u.Op == token.MUL {
				if a, ok := u.X.(*ssa.Alloc); ok {
					n := 0
					good := false
					for _, r := range *a.Referrers() {
						if st, ok := r.(*ssa.Store); ok && st.Addr == a {
							n++
							good = st.Val == fn.Params[0]
						}
					}
					return n == 1 && good
				}
			}
			return false
		}
		for _, an := range t.assigners {
			short := an[strings.LastIndex(an, ".")+1:]
			r := staticResult{Name: "assign-first:" + t.key + ":" + short, Func: fn.String(), Kind: "assign-first", Pos: posOf(e, fn.Pos()), Status: "unsat",
				Detail: short + "() is called on the receiver unconditionally and dominates every other call of " + t.key}
			var site *ssa.Call
			var problems []string
			for _, b := range fn.Blocks {
				for _, ins := range b.Instrs {
					if c, ok := ins.(*ssa.Call); ok {
						if f, ok := c.Call.Value.(*ssa.Function); ok && f.String() == an {
							if site != nil {
								continue
							}
							site = c
						}
					}
				}
			}
			if site == nil {
				problems = append(problems, short+"() is not called")
			} else {
				if len(site.Call.Args) == 0 || !isRecv(site.Call.Args[0]) {
					problems = append(problems, fmt.Sprintf("%s: %s() is not called on the receiver", posOf(e, site.Pos()), short))
				}
				sb := site.Block()
				idx := func(b *ssa.BasicBlock, x ssa.Instruction) int {
					for i, ins := range b.Instrs {
						if ins == x {
							return i
						}
					}
					return -1
				}
				for _, b := range fn.Blocks {
					if panics[b] {
						continue
					}
					for _, ins := range b.Instrs {
						ci, ok := ins.(ssa.CallInstruction)
						if !ok || ins == ssa.Instruction(site) {
							continue
						}
						if bi, ok := ci.Common().Value.(*ssa.Builtin); ok && (strings.HasPrefix(bi.Name(), "ssa:") || bi.Name() == "len" || bi.Name() == "cap") {
							continue
						}
						if f, ok := ci.Common().Value.(*ssa.Function); ok {
							isOther := false
							for _, o := range t.assigners {
								if f.String() == o {
									isOther = true
								}
							}
							if isOther {
								continue
							}
						}
						dom := sb.Dominates(b) && (sb != b || idx(sb, site) < idx(b, ins))
						if !dom {
							problems = append(problems, fmt.Sprintf("%s: call not dominated by %s()", posOf(e, ins.Pos()), short))
						}
					}
					if rt, ok := b.Instrs[len(b.Instrs)-1].(*ssa.Return); ok {
						if !(sb.Dominates(b)) {
							problems = append(problems, fmt.Sprintf("%s: return not dominated by %s()", posOf(e, rt.Pos()), short))
						}
					}
				}
			}
			if len(problems) > 6 {
				problems = append(problems[:6], fmt.Sprintf("... %d more", len(problems)-6))
			}
			if len(problems) > 0 {
				r.Status = "fail"
				r.Detail = strings.Join(problems, "; ")
			}
			res = append(res, r)
		}
	}
	return res, errs
}

// allocSites: objects of the listed types are created only inside the listed functions of
// package asm (whitelist sweep). Used for C04: every blockaddress constant the translator
// creates goes through (*generator).irBlockAddressConst, which registers it for the fix-up
// pass that replaces the placeholder block by the block of the named function.
func (e *Engine) allocSites(prop string) ([]staticResult, []string) {
	type rule struct {
		pkg     string   // package swept
		typ     string   // full type string of the created object
		ctors   []string // constructor functions whose calls count as creation sites
		allowed []string // functions (String()) allowed to create
		why     string
	}
	rules := []rule{{modPath + "/asm", modPath + "/ir/constant.BlockAddress", []string{modPath + "/ir/constant.NewBlockAddress"},
		[]string{"(*" + modPath + "/asm.generator).irBlockAddressConst"},
		"every blockaddress constant is created by irBlockAddressConst (which records it in gen.todo for the block fix-up)"}}
	var res []staticResult
	var errs []string
	for _, ru := range rules {
		pkg := e.pkgs[ru.pkg]
		if pkg == nil {
			errs = append(errs, "alloc-sites: package "+ru.pkg+" not loaded")
			continue
		}
		short := ru.typ[strings.LastIndex(ru.typ, "/")+1:]
		r := staticResult{Name: "alloc-sites:" + short, Func: ru.pkg, Kind: "alloc-sites", Status: "unsat", Detail: ru.why}
		var problems []string
		nsites := 0
		var visit func(fn *ssa.Function)
		seen := map[*ssa.Function]bool{}
		visit = func(fn *ssa.Function) {
			if fn == nil || seen[fn] {
				return
			}
			seen[fn] = true
			ok := false
			for _, a := range ru.allowed {
				if fn.String() == a {
					ok = true
				}
			}
			for _, b := range fn.Blocks {
				for _, ins := range b.Instrs {
					creates := false
					switch x := ins.(type) {
					case *ssa.Alloc:
						if pt, isP := x.Type().(*types.Pointer); isP && types.TypeString(pt.Elem(), nil) == ru.typ {
							creates = true
						}
					case ssa.CallInstruction:
						if f, isF := x.Common().Value.(*ssa.Function); isF {
							for _, c := range ru.ctors {
								if f.String() == c {
									creates = true
								}
							}
						}
					}
					if creates {
						nsites++
						if !ok {
							problems = append(problems, fmt.Sprintf("%s: %s created in %s", posOf(e, ins.Pos()), short, fn.Name()))
						}
					}
				}
			}
			for _, an := range fn.AnonFuncs {
				visit(an)
			}
		}
		for _, m := range pkg.Members {
			switch x := m.(type) {
			case *ssa.Function:
				visit(x)
			case *ssa.Type:
				for _, T := range []types.Type{x.Type(), types.NewPointer(x.Type())} {
					ms := e.prog.MethodSets.MethodSet(T)
					for i := 0; i < ms.Len(); i++ {
						if f := e.prog.MethodValue(ms.At(i)); f != nil && f.Pkg == pkg {
							visit(f)
						}
					}
				}
			}
		}
		if nsites == 0 {
			problems = append(problems, "no creation site found (contract-stale: the whitelist names nothing)")
		}
		if len(problems) > 0 {
			r.Status = "fail"
			r.Detail = strings.Join(problems, "; ")
		}
		res = append(res, r)
	}
	return res, errs
}
