package main

// Pure functions (assumption A4 and the `pure` contract clause).
//
// Functions of the packages named by `purepkg` directives (the syntax tree of
// github.com/llir/ll) are modelled as deterministic, side-effect-free functions
// of their arguments: a call becomes the application of an uninterpreted
// function, one per callee and result position, the same at every call site and
// in contract expressions (written in method-call syntax, old.X().Typ()). The
// memory such packages own is never written by /repo: fields of their struct
// types are an immutable heap component. A slice result is a freshly allocated
// slice (as in the real code) whose length and elements are uninterpreted
// functions of the arguments.
//
// Functions of /repo whose contract says `pure` are treated the same way at
// their call sites; the static obligation pure-funcs checks that their bodies
// write nothing but memory they allocate and call only pure functions.

import (
	"fmt"
	"go/types"
	"sort"
	"strings"

	"golang.org/x/tools/go/ssa"
)

// pureSliceArrs: spec-level slice values returned by pure functions -> their element arrays.
var pureSliceArrs = map[string]*Term{}

func pureSliceArr(s *Term) *Term {
	if s == nil || s.Op != "mkslc" {
		return nil
	}
	return pureSliceArrs[s.String()]
}

func (e *Engine) isPurePkg(p *types.Package) bool {
	return p != nil && e.purePkgs[p.Path()]
}

// pureFuncOf reports whether calls of fn are modelled as pure applications.
func (fx *FnExec) pureFuncOf(fn *ssa.Function) bool {
	if fn == nil {
		return false
	}
	if con := fx.e.cons[fn]; con != nil && con.Pure {
		return true
	}
	if fn.Pkg != nil && fx.e.isPurePkg(fn.Pkg.Pkg) {
		return true
	}
	// methods of instantiated or synthetic wrappers of pure packages
	if fn.Pkg == nil && fn.Signature.Recv() != nil {
		t := fn.Signature.Recv().Type()
		if pt, ok := t.(*types.Pointer); ok {
			t = pt.Elem()
		}
		if n, ok := t.(*types.Named); ok && fx.e.isPurePkg(n.Obj().Pkg()) {
			return true
		}
	}
	return false
}

// pureApply builds the results of a pure call. atCode: the call is executed by the
// program (slice results are allocated, type facts are assumed); otherwise it occurs in
// a contract expression.
func (fx *FnExec) pureApply(st *State, full string, sig *types.Signature, recv *Term, args []*Term, atCode bool) []*Term {
	if strings.Contains(full, modPath+"/") && !strings.HasPrefix(full, "iface ") {
		fx.root().trusted("pure function of /repo (static obligation pure-funcs): " + full + " is applied as an uninterpreted function of its arguments; arguments on which it panics are outside the grammar (A4)")
	} else {
		fx.root().trusted("assumption A4: " + pureOrigin(full) + " is a deterministic, side-effect-free function of its arguments (identity of returned wrapper objects included)")
	}
	var all []*Term
	var sorts []Sort
	if recv != nil {
		all = append(all, recv)
		sorts = append(sorts, recv.S)
	}
	for _, a := range args {
		all = append(all, a)
		sorts = append(sorts, a.S)
	}
	base := "pf_" + sanitize(full)
	var res []*Term
	for i := 0; i < sig.Results().Len(); i++ {
		rt := sig.Results().At(i).Type()
		name := base
		if sig.Results().Len() > 1 {
			name = fmt.Sprintf("%s_r%d", base, i)
		}
		if sl, ok := rt.Underlying().(*types.Slice); ok {
			es := fx.e.sortOf(sl.Elem())
			as := ArrSort(SInt, es)
			fx.c.DeclareFun(name+"_len", sorts, SInt)
			fx.c.DeclareFun(name+"_arr", sorts, as)
			ln := App(name+"_len", SInt, all...)
			arr := App(name+"_arr", as, all...)
			if !atCode {
				fx.c.DeclareFun(name+"_base", sorts, SInt)
				v := MkSlc(App(name+"_base", SInt, all...), IntLit(0), ln, ln)
				pureSliceArrs[v.String()] = arr
				res = append(res, v)
				continue
			}
			fx.c.Assume(Implies(st.guard, And(Le(IntLit(0), ln), Le(ln, maxInt))))
			r := fx.newRef(st)
			hn, hs := fx.elemHeapName(sl.Elem())
			if n, ok := sl.Elem().(*types.Named); ok && fx.e.isPurePkg(n.Obj().Pkg()) && !types.IsInterface(n) {
				// slices of syntax-tree nodes are built by the accessors and never written by /repo (A4):
				// their memory survives calls with unknown effects
				fx.e.pureElemHeaps[hn] = true
			}
			fx.heapSet(st, hn, Store(fx.heapGet(st, hn, hs), r, arr))
			// element facts (pointers into pre-existing memory etc.) for every index
			k := Var("k!pf", SInt)
			ek := App("select", es, arr, k)
			if inv := fx.typeInv(ek, sl.Elem(), fx.entryAlloc); !inv.IsTrue() && !strings.Contains(inv.String(), "forall") {
				fx.c.Assume(Forall([]*Term{k}, inv, ek))
			}
			res = append(res, MkSlc(r, IntLit(0), ln, ln))
			continue
		}
		rs := fx.e.sortOf(rt)
		fx.c.DeclareFun(name, sorts, rs)
		v := App(name, rs, all...)
		if atCode {
			fx.c.Assume(Implies(st.guard, fx.typeInv(v, rt, fx.entryAlloc)))
		}
		res = append(res, v)
	}
	return res
}

func pureOrigin(full string) string {
	// group the trusted-base line by package rather than by function
	if i := strings.Index(full, "github.com/llir/ll/ast"); i >= 0 {
		return "every accessor of github.com/llir/ll/ast"
	}
	return full
}

// specMethodCall resolves x.M(args) in a contract expression to a pure function.
func (env *SpecEnv) specMethodCall(e *SExpr, sel int) (specVal, bool) {
	if e.Recv == nil {
		return specVal{}, false
	}
	fx := env.fx
	i := strings.LastIndex(e.Name, ".")
	meth := e.Name[i+1:]
	// package-qualified function of a pure package or a pure function of this package?
	if e.Recv.Kind == "ident" {
		if _, isVar := env.lookup(e.Recv.Name); !isVar {
			return specVal{}, false
		}
	}
	x := env.expr(e.Recv)
	if x.typ == nil {
		return specVal{}, false
	}
	obj, _, _ := types.LookupFieldOrMethod(x.typ, true, nil, meth)
	if obj == nil {
		// unexported methods need the package
		for _, p := range fx.e.ppkgs {
			if o, _, _ := types.LookupFieldOrMethod(x.typ, true, p.Types, meth); o != nil {
				obj = o
				break
			}
		}
	}
	f, ok := obj.(*types.Func)
	if !ok {
		return specVal{}, false
	}
	sig := f.Type().(*types.Signature)
	var args []*Term
	for _, a := range e.Args {
		args = append(args, env.expr(a).t)
	}
	recvT := sig.Recv().Type()
	if _, isIface := recvT.Underlying().(*types.Interface); isIface {
		// interface method: same symbol as a dynamic call through that interface
		n, _ := x.typ.(*types.Named)
		if n == nil || !fx.e.isPurePkg(n.Obj().Pkg()) {
			env.fail("%s: interface %s does not belong to a pure package", e.Name, x.typ)
		}
		full := "iface " + n.Obj().Pkg().Path() + "." + n.Obj().Name() + "." + meth
		rs := fx.pureApply(env.st, full, sig, x.t, args, false)
		return env.pickResult(e.Name, rs, sig, sel), true
	}
	fn := fx.e.prog.FuncValue(f)
	if fn == nil || !fx.pureFuncOf(fn) {
		env.fail("%s is not a pure function (purepkg / pure clause missing)", e.Name)
	}
	// receiver adaptation: value receiver called on a pointer, pointer receiver through an embedded field
	recv := x
	_, recvIsPtr := recvT.Underlying().(*types.Pointer)
	if pt, isPtr := x.typ.Underlying().(*types.Pointer); isPtr && !recvIsPtr {
		if types.Identical(pt.Elem(), recvT) {
			recv = specVal{fx.readObj(env.st, x.t, pt.Elem()), pt.Elem()}
		}
	}
	if !types.Identical(recv.typ, recvT) {
		// promoted through embedded fields: walk the selection path
		_, index, _ := types.LookupFieldOrMethod(x.typ, true, f.Pkg(), meth)
		cur := x
		for _, fi := range index[:len(index)-1] {
			t := cur.typ
			if pt, ok := t.Underlying().(*types.Pointer); ok {
				cur = specVal{fx.readObj(env.st, cur.t, pt.Elem()), pt.Elem()}
				t = pt.Elem()
			}
			stt := t.Underlying().(*types.Struct)
			si := fx.e.structOf(t)
			cur = specVal{Sel(si.sels[fi], cur.t), stt.Field(fi).Type()}
		}
		recv = cur
		if pt, isPtr := recv.typ.Underlying().(*types.Pointer); isPtr && !recvIsPtr && types.Identical(pt.Elem(), recvT) {
			recv = specVal{fx.readObj(env.st, recv.t, pt.Elem()), pt.Elem()}
		}
		if !types.Identical(recv.typ, recvT) {
			env.fail("%s: cannot adapt receiver of type %s to %s", e.Name, x.typ, recvT)
		}
	}
	rs := fx.pureApply(env.st, fn.String(), sig, recv.t, args, false)
	return env.pickResult(e.Name, rs, sig, sel), true
}

// specPureFuncCall resolves f(args) / pkg.f(args) in a contract expression to a /repo
// function whose contract says `pure`, or to a function of a pure package.
func (env *SpecEnv) specPureFuncCall(e *SExpr, sel int) (specVal, bool) {
	fx := env.fx
	name := e.Name
	var pkg *ssa.Package
	if i := strings.LastIndex(name, "."); i >= 0 {
		// package-qualified: resolve the package name among the imports of the contract's package
		q := name[:i]
		name = name[i+1:]
		if pp := fx.e.ppkgs[env.pkg]; pp != nil {
			// several imports may share the name (asm/enum and ir/enum): take, in path order, the first one
			// that declares the function
			var paths []string
			for path, imp := range pp.Imports {
				if imp.Name == q || strings.HasSuffix(path, "/"+q) {
					paths = append(paths, path)
				}
			}
			sort.Strings(paths)
			for _, path := range paths {
				if p := fx.e.pkgs[path]; p != nil && (pkg == nil || (pkg.Func(name) == nil && p.Func(name) != nil)) {
					pkg = p
				}
			}
		}
	} else {
		pkg = fx.e.pkgs[env.pkg]
	}
	if pkg == nil {
		return specVal{}, false
	}
	fn := pkg.Func(name)
	if fn == nil || !fx.pureFuncOf(fn) {
		return specVal{}, false
	}
	var args []*Term
	for _, a := range e.Args {
		args = append(args, env.expr(a).t)
	}
	rs := fx.pureApply(env.st, fn.String(), fn.Signature, nil, args, false)
	return env.pickResult(e.Name, rs, fn.Signature, sel), true
}

// pickResult: a pure call in a contract denotes its only result; res0(call) / res1(call) / ... select
// one result of a call with several.
func (env *SpecEnv) pickResult(name string, rs []*Term, sig *types.Signature, sel int) specVal {
	i := 0
	if sel > 0 {
		i = sel - 1
	} else if len(rs) != 1 {
		env.fail("%s: %d results (select one with res0(...), res1(...))", name, len(rs))
	}
	if i >= len(rs) {
		env.fail("%s: no result %d", name, i)
	}
	return specVal{rs[i], sig.Results().At(i).Type()}
}

// pureOnly: a contract that only declares the function pure (no pre/postconditions): nothing to
// verify deductively; the static obligation pure-funcs checks the declaration.
func pureOnly(con *Contract) bool {
	return con.Pure && len(con.Common.Requires) == 0 && len(con.Common.Ensures) == 0 && len(con.Behs) == 0
}
