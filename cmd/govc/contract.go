package main

// Contract files: //@ lines in zz_contracts_verif.go (in /repo, behind the
// build tag) and *.spec files under /verif/specs.

import (
	"bufio"
	"fmt"
	"os"
	"regexp"
	"strconv"
	"strings"
)

type Clause struct {
	Expr *SExpr
	Text string
	File string
	Line int
	// Assumed: `assumed ensures E` -- the clause is believed by callers but NOT verified against the body (no
	// obligation is generated); it is listed as an assumption in the evidence of every unit that uses it and of
	// the function's own units. For clauses that define a spec symbol by the function itself.
	// `assumed requires E`: assumed by the unit as any precondition, but not an obligation of its callers
	// (grammar-shaped arguments, A4); listed as an assumption in the evidence of the callers.
	Assumed bool
}

type LoopSpec struct {
	Invariants []*Clause
	Decreases  *Clause
}

type GhostParam struct {
	Name string
	Type string
}

type GhostStmt struct {
	At   string // e.g. "call setName #2" / "loop 1 head"
	Text string
	Var  string
	Expr *SExpr
}

type Behaviour struct {
	Name     string
	Ghosts   []GhostParam
	Requires []*Clause
	Ensures  []*Clause
	Assigns  []*Clause
	HasAssigns bool
	AssignsAny bool // `assigns anything`: the function (through calls whose effects are unknown) may change any memory
	Loops    map[int]*LoopSpec
	Asserts  map[string][]*Clause // keyed program point
	Panics   []*Clause            // "panics when"
	Insts    []*Clause            // instantiate Callee.beh(ghost args): parsed as a call expression "Callee.beh(args)"
	// FinalHeap: prefixes of axiom names. Such axioms (heap-reading, with a heap-free trigger, hence normally instances
	// for the heap on entry) are instantiated a second time over the heap at each return, under that return's path
	// condition: the unit builds NEW objects the axiomatised relation is about (teq of a freshly built type). Sound only
	// where the unit does not change what the axioms read of objects that existed on entry -- the frame clause of the
	// behaviour must not list those fields (checked: a behaviour with `finalheap` and an assigns clause other than
	// `nothing`/`caches` is rejected).
	FinalHeap []string
}

func newBeh(name string) *Behaviour {
	return &Behaviour{Name: name, Loops: map[int]*LoopSpec{}, Asserts: map[string][]*Clause{}}
}

type Contract struct {
	Key      string // function key as written
	Pkg      string // package path the file belongs to ("" for global specs)
	File     string
	Line     int
	Inline   bool
	Trusted  bool // contract assumed, body not verified (external or out of subset)
	Overflow bool // generate overflow side obligations
	NoPanic  bool
	Partial  bool // partial correctness: the postconditions are proved for the executions that return; run-time panics are not excluded
	Common   *Behaviour
	Behs     []*Behaviour
	Props    []string // property ids this contract serves
	Keeps    []string // ghost states assumed untouched by opaque callees
	Opaque   map[string]bool // callees (by name) never inlined: treated by contract or as opaque/observer calls
	Uses     []string // manual lemmas this unit may use
	Pure     bool     // calls are modelled as an uninterpreted function of the arguments (purity checked by the static obligation pure-funcs)
}

type SpecFunc struct {
	Name   string
	Params []GhostParam
	Ret    string
	Body   *SExpr // nil => uninterpreted
	Rec    bool
	Reads  []string // heap components the body may read (become implicit parameters)
	Macro  bool // expanded at the call site (may read the heap of the calling context)
	Ghost  bool // ghost state: a heap component indexed by the (reference of the) argument
	Triggered bool // defined by an axiom f(args) == body with trigger f(args) instead of being inlined (keeps terms and triggers small)
	Pkg    string
	File   string
	Line   int
	Text   string
}

type Axiom struct {
	Name  string
	Expr  *SExpr
	Manual bool  // only used by units that name it in a `uses` clause
	Lemma bool   // must be proved (obligation) before use
	By    string // "induction on k" etc.
	Pkg   string
	File  string
	Line  int
	Text  string
	Props []string
}

type SpecFile struct {
	PurePkgs  []string // packages whose functions are deterministic, side-effect-free functions of their arguments (assumption A4)
	Contracts []*Contract
	Specs     []*SpecFunc
	Axioms    []*Axiom
}

var kwRe = regexp.MustCompile(`^(finalheap|assumed|triggered|purepkg|pure|instantiate|opaque|uses|manual|keeps|macro|ghost|func|requires|ensures|assigns|invariant|loop|behaviour|behavior|spec|axiom|lemma|decreases|inline|trusted|overflow|nopanic|partial|props|panics|assert|rec)\b`)

var readsRe = regexp.MustCompile(`\s+reads\s*\{([^}]*)\}\s*`)

var sigRe = regexp.MustCompile(`^(\w+)\s*\(([^)]*)\)\s*(\S+)?\s*(?:=\s*(.*))?$`)

func parseParams(s string) ([]GhostParam, error) {
	var out []GhostParam
	s = strings.TrimSpace(s)
	if s == "" {
		return nil, nil
	}
	for _, p := range strings.Split(s, ",") {
		f := strings.Fields(strings.TrimSpace(p))
		if len(f) == 3 && f[0] == "ghost" {
			f = f[1:]
		}
		if len(f) != 2 {
			return nil, fmt.Errorf("bad parameter %q", p)
		}
		out = append(out, GhostParam{f[0], f[1]})
	}
	return out, nil
}

// ParseSpecFile parses all //@ lines of a file.
func ParseSpecFile(path, pkg string) (*SpecFile, error) {
	f, err := os.Open(path)
	if err != nil {
		return nil, err
	}
	defer f.Close()
	type line struct {
		text string
		no   int
	}
	var items []line // logical items (continuations joined)
	sc := bufio.NewScanner(f)
	sc.Buffer(make([]byte, 1<<20), 1<<20)
	n := 0
	for sc.Scan() {
		n++
		raw := strings.TrimSpace(sc.Text())
		if !strings.HasPrefix(raw, "//@") {
			continue
		}
		t := strings.TrimSpace(raw[3:])
		if t == "" || strings.HasPrefix(t, "#") {
			continue
		}
		if kwRe.MatchString(t) || len(items) == 0 {
			items = append(items, line{t, n})
		} else {
			items[len(items)-1].text += " " + t
		}
	}
	sf := &SpecFile{}
	var cur *Contract
	var beh *Behaviour
	mkClause := func(text string, no int) (*Clause, error) {
		e, err := parseSpecExpr(text)
		if err != nil {
			return nil, fmt.Errorf("%s:%d: %v", path, no, err)
		}
		return &Clause{Expr: e, Text: text, File: path, Line: no}, nil
	}
	for _, it := range items {
		kw := kwRe.FindString(it.text)
		rest := strings.TrimSpace(it.text[len(kw):])
		fail := func(f string, a ...interface{}) error {
			return fmt.Errorf("%s:%d: %s", path, it.no, fmt.Sprintf(f, a...))
		}
		needBeh := func() error {
			if cur == nil {
				return fail("%s outside func", kw)
			}
			return nil
		}
		switch kw {
		case "func":
			cur = &Contract{Key: rest, Pkg: pkg, File: path, Line: it.no, Common: newBeh("")}
			beh = cur.Common
			sf.Contracts = append(sf.Contracts, cur)
		case "purepkg":
			sf.PurePkgs = append(sf.PurePkgs, strings.Fields(rest)...)
		case "inline", "trusted", "overflow", "nopanic", "pure", "partial":
			if err := needBeh(); err != nil {
				return nil, err
			}
			switch kw {
			case "pure":
				cur.Pure = true
			case "inline":
				cur.Inline = true
			case "trusted":
				cur.Trusted = true
			case "overflow":
				cur.Overflow = true
			case "nopanic":
				cur.NoPanic = true
			case "partial":
				cur.Partial = true
			}
		case "props":
			if cur != nil {
				cur.Props = strings.Fields(rest)
			}
		case "keeps":
			// keeps g1, g2: assumption that calls without a contract made by this function leave these ghost states unchanged
			if cur != nil {
				for _, g := range splitTop(rest) {
					cur.Keeps = append(cur.Keeps, strings.TrimSpace(g))
				}
			}
		case "opaque":
			// opaque F, G: calls of functions with these names are never inlined into this unit
			if cur != nil {
				if cur.Opaque == nil {
					cur.Opaque = map[string]bool{}
				}
				for _, g := range splitTop(rest) {
					cur.Opaque[strings.TrimSpace(g)] = true
				}
			}
		case "behaviour", "behavior":
			if err := needBeh(); err != nil {
				return nil, err
			}
			rest = strings.TrimSuffix(rest, ":")
			name := rest
			var ghosts []GhostParam
			if i := strings.Index(rest, "("); i >= 0 {
				name = strings.TrimSpace(rest[:i])
				ps, err := parseParams(strings.TrimSuffix(strings.TrimSpace(rest[i+1:]), ")"))
				if err != nil {
					return nil, fail("%v", err)
				}
				ghosts = ps
			}
			beh = newBeh(name)
			beh.Ghosts = ghosts
			cur.Behs = append(cur.Behs, beh)
		case "finalheap":
			if err := needBeh(); err != nil {
				return nil, err
			}
			beh.FinalHeap = append(beh.FinalHeap, strings.Fields(strings.ReplaceAll(rest, ",", " "))...)
		case "instantiate":
			// instantiate Callee.beh(g1, g2): at calls of Callee, its behaviour beh may be used with these ghost arguments
			if err := needBeh(); err != nil {
				return nil, err
			}
			c, err := mkClause(rest, it.no)
			if err != nil {
				return nil, err
			}
			if c.Expr.Kind != "call" {
				return nil, fail("instantiate needs Callee.behaviour(args)")
			}
			beh.Insts = append(beh.Insts, c)
		case "requires", "ensures", "assigns", "panics", "assumed":
			if err := needBeh(); err != nil {
				return nil, err
			}
			assumed := false
			if kw == "assumed" {
				switch {
				case strings.HasPrefix(rest, "ensures "):
					rest = strings.TrimSpace(strings.TrimPrefix(rest, "ensures "))
					kw, assumed = "ensures", true
				case strings.HasPrefix(rest, "requires "):
					rest = strings.TrimSpace(strings.TrimPrefix(rest, "requires "))
					kw, assumed = "requires", true
				default:
					return nil, fail("assumed must be followed by ensures or requires")
				}
			}
			if kw == "assigns" {
				beh.HasAssigns = true
				if rest == "nothing" {
					continue
				}
				if rest == "anything" {
					beh.AssignsAny = true
					continue
				}
				for _, part := range splitTop(rest) {
					c, err := mkClause(part, it.no)
					if err != nil {
						return nil, err
					}
					beh.Assigns = append(beh.Assigns, c)
				}
				continue
			}
			if kw == "panics" {
				rest = strings.TrimSpace(strings.TrimPrefix(rest, "when"))
			}
			c, err := mkClause(rest, it.no)
			if err != nil {
				return nil, err
			}
			switch kw {
			case "requires":
				c.Assumed = assumed
				beh.Requires = append(beh.Requires, c)
			case "ensures":
				c.Assumed = assumed
				beh.Ensures = append(beh.Ensures, c)
			case "panics":
				beh.Panics = append(beh.Panics, c)
			}
		case "loop":
			if err := needBeh(); err != nil {
				return nil, err
			}
			// loop N: invariant E   |  loop N: decreases E
			i := strings.Index(rest, ":")
			if i < 0 {
				return nil, fail("loop needs ':'")
			}
			k, err := strconv.Atoi(strings.TrimSpace(rest[:i]))
			if err != nil {
				return nil, fail("bad loop ordinal")
			}
			body := strings.TrimSpace(rest[i+1:])
			ls := beh.Loops[k]
			if ls == nil {
				ls = &LoopSpec{}
				beh.Loops[k] = ls
			}
			switch {
			case strings.HasPrefix(body, "invariant"):
				c, err := mkClause(strings.TrimSpace(body[len("invariant"):]), it.no)
				if err != nil {
					return nil, err
				}
				ls.Invariants = append(ls.Invariants, c)
			case strings.HasPrefix(body, "decreases"):
				c, err := mkClause(strings.TrimSpace(body[len("decreases"):]), it.no)
				if err != nil {
					return nil, err
				}
				ls.Decreases = c
			default:
				return nil, fail("loop clause must be invariant or decreases")
			}
		case "spec", "rec", "macro", "triggered":
			rec := false
			triggered := false
			if kw == "rec" {
				rec = true
				rest = strings.TrimSpace(strings.TrimPrefix(rest, "spec"))
			}
			if kw == "triggered" {
				triggered = true
				rest = strings.TrimSpace(strings.TrimPrefix(rest, "spec"))
			}
			var reads []string
			if rm := readsRe.FindStringSubmatch(rest); rm != nil {
				for _, r := range splitTop(rm[1]) {
					reads = append(reads, strings.TrimSpace(r))
				}
				rest = strings.Replace(rest, rm[0], " ", 1)
			}
			m := sigRe.FindStringSubmatch(rest)
			if m == nil {
				return nil, fail("bad spec function declaration")
			}
			ps, err := parseParams(m[2])
			if err != nil {
				return nil, fail("%v", err)
			}
			s := &SpecFunc{Name: m[1], Params: ps, Ret: m[3], Pkg: pkg, File: path, Line: it.no, Text: rest, Rec: rec, Macro: kw == "macro", Reads: reads, Triggered: triggered}
			if m[4] != "" {
				e, err := parseSpecExpr(m[4])
				if err != nil {
					return nil, fail("%v", err)
				}
				s.Body = e
			}
			sf.Specs = append(sf.Specs, s)
			cur = nil
		case "ghost":
			m := sigRe.FindStringSubmatch(rest)
			if m == nil {
				return nil, fail("bad ghost declaration")
			}
			ps, err := parseParams(m[2])
			if err != nil || len(ps) != 1 {
				return nil, fail("ghost state needs exactly one parameter")
			}
			sf.Specs = append(sf.Specs, &SpecFunc{Name: m[1], Params: ps, Ret: m[3], Pkg: pkg, File: path, Line: it.no, Text: rest, Ghost: true})
			cur = nil
		case "uses":
			if cur != nil {
				for _, g := range splitTop(rest) {
					cur.Uses = append(cur.Uses, strings.TrimSpace(g))
				}
			}
		case "axiom", "lemma", "manual":
			manual := false
			if kw == "manual" {
				manual = true
				rest = strings.TrimSpace(strings.TrimPrefix(rest, "lemma"))
				kw = "lemma"
			}
			i := strings.Index(rest, ":")
			if i < 0 {
				return nil, fail("axiom needs 'name:'")
			}
			name := strings.TrimSpace(rest[:i])
			body := strings.TrimSpace(rest[i+1:])
			by := ""
			if j := strings.LastIndex(body, " by induction on "); j >= 0 && kw == "lemma" {
				by = strings.TrimSpace(body[j+len(" by induction on "):])
				body = strings.TrimSpace(body[:j])
			}
			e, err := parseSpecExpr(body)
			if err != nil {
				return nil, fail("%v", err)
			}
			sf.Axioms = append(sf.Axioms, &Axiom{Name: name, Expr: e, Lemma: kw == "lemma", By: by, Pkg: pkg, File: path, Line: it.no, Text: body, Manual: manual})
			cur = nil
		case "assert":
			if err := needBeh(); err != nil {
				return nil, err
			}
			i := strings.Index(rest, ":")
			if i < 0 {
				return nil, fail("assert needs 'at <point>:'")
			}
			pt := strings.TrimSpace(strings.TrimPrefix(strings.TrimSpace(rest[:i]), "at"))
			c, err := mkClause(strings.TrimSpace(rest[i+1:]), it.no)
			if err != nil {
				return nil, err
			}
			beh.Asserts[pt] = append(beh.Asserts[pt], c)
		default:
			return nil, fail("unknown clause %q", it.text)
		}
	}
	return sf, nil
}

// splitTop splits on top-level commas.
func splitTop(s string) []string {
	var out []string
	d := 0
	st := 0
	for i, c := range s {
		switch c {
		case '(', '[':
			d++
		case ')', ']':
			d--
		case ',':
			if d == 0 {
				out = append(out, strings.TrimSpace(s[st:i]))
				st = i + 1
			}
		}
	}
	out = append(out, strings.TrimSpace(s[st:]))
	return out
}
