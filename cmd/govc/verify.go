package main

// Per-function, per-behaviour verification driver.

import (
	"fmt"
	"go/ast"
	"go/token"
	"go/types"
	"sort"
	"strings"

	"golang.org/x/tools/go/ssa"
)

type Unit struct {
	Fn   *ssa.Function
	Con  *Contract
	Beh  *Behaviour // nil => common only
	Name string
}

type UnitResult struct {
	Unit    *Unit
	Ctx     *Ctx
	Obls    []*Obligation
	Err     string // engine error (unsupported construct, stale contract)
	Trusted []string
	Lemmas  []*Axiom
}

func behName(b *Behaviour) string {
	if b == nil || b.Name == "" {
		return "default"
	}
	return b.Name
}

// effective merges the common clauses with a behaviour.
func effective(con *Contract, b *Behaviour) *Behaviour {
	if b == nil {
		return con.Common
	}
	e := newBeh(b.Name)
	e.Ghosts = b.Ghosts
	e.Requires = append(append([]*Clause{}, con.Common.Requires...), b.Requires...)
	e.Ensures = append(append([]*Clause{}, con.Common.Ensures...), b.Ensures...)
	e.Assigns = append(append([]*Clause{}, con.Common.Assigns...), b.Assigns...)
	e.HasAssigns = con.Common.HasAssigns || b.HasAssigns
	e.AssignsAny = con.Common.AssignsAny || b.AssignsAny
	e.Panics = append(append([]*Clause{}, con.Common.Panics...), b.Panics...)
	e.Insts = append(append([]*Clause{}, con.Common.Insts...), b.Insts...)
	e.FinalHeap = append(append([]string{}, con.Common.FinalHeap...), b.FinalHeap...)
	for k, v := range con.Common.Loops {
		cp := *v
		e.Loops[k] = &cp
	}
	for k, v := range b.Loops {
		if e.Loops[k] == nil {
			e.Loops[k] = &LoopSpec{}
		}
		e.Loops[k].Invariants = append(append([]*Clause{}, e.Loops[k].Invariants...), v.Invariants...)
		if v.Decreases != nil {
			e.Loops[k].Decreases = v.Decreases
		}
	}
	for k, v := range con.Common.Asserts {
		e.Asserts[k] = append(e.Asserts[k], v...)
	}
	for k, v := range b.Asserts {
		e.Asserts[k] = append(e.Asserts[k], v...)
	}
	return e
}

func (e *Engine) unitsFor(fn *ssa.Function, con *Contract) []*Unit {
	short := fn.String()
	short = strings.Replace(short, modPath+"/", "", -1)
	if len(con.Behs) == 0 {
		return []*Unit{{Fn: fn, Con: con, Name: short + "#default"}}
	}
	var us []*Unit
	for _, b := range con.Behs {
		us = append(us, &Unit{Fn: fn, Con: con, Beh: b, Name: short + "#" + b.Name})
	}
	return us
}

func (e *Engine) VerifyUnit(u *Unit) (res *UnitResult) {
	res = &UnitResult{Unit: u}
	c := NewCtx()
	res.Ctx = c
	defer func() {
		if r := recover(); r != nil {
			switch x := r.(type) {
			case unsupported:
				res.Err = "unsupported: " + string(x)
			case specErr:
				res.Err = "contract-stale: " + string(x)
			default:
				panic(r)
			}
		}
	}()
	closures = map[string]*closureInfo{}
	nameDefs = map[string]*Term{}
	keyTerms = map[string][]*Term{}
	fn := u.Fn
	fx := &FnExec{e: e, c: c, fn: fn, con: u.Con, beh: effective(u.Con, u.Beh), behName: behName(u.Beh),
		vals: map[ssa.Value]*Term{}, lvals: map[ssa.Value]*LVal{}, tuples: map[ssa.Value][]*Term{}, prefix: u.Name,
		freeCells: map[*ssa.FreeVar]*Term{}, checkAssigns: true}
	alloc0 := c.Const("alloc0", SInt)
	c.Assume(Gt(alloc0, IntLit(2000000)))
	fx.entryAlloc = alloc0
	st := &State{guard: True, cells: map[*ssa.Alloc]*Term{}, heap: map[string]*Term{"alloc": alloc0}}
	fx.params = map[string]specVal{}
	nslice := 0
	for _, p := range fn.Params {
		if _, ok := p.Type().Underlying().(*types.Slice); ok {
			nslice++
		}
	}
	for _, p := range fn.Params {
		v := c.Const("p_"+p.Name(), e.sortOf(p.Type()))
		if isStringT(p.Type()) {
			// explicit constructor keeps selectors syntactically simple
			v = MkStr(c.Const("p_"+p.Name()+"_arr", SArrI), c.Const("p_"+p.Name()+"_len", SInt))
		}
		if _, ok := p.Type().Underlying().(*types.Slice); ok && nslice == 1 {
			// a single slice parameter cannot partially overlap another one: its
			// window may be re-based to offset 0 without loss of generality
			v = MkSlc(c.Const("p_"+p.Name()+"_base", SInt), IntLit(0), c.Const("p_"+p.Name()+"_len", SInt), c.Const("p_"+p.Name()+"_cap", SInt))
		}
		fx.vals[p] = v
		fx.params[p.Name()] = specVal{v, p.Type()}
		fx.assumeType(st, v, p.Type())
	}
	var fvPtrs []*Term
	for _, fv := range fn.FreeVars {
		v := c.Const("fv_"+fv.Name(), SInt)
		fx.freeCells[fv] = v
		c.Assume(And(Lt(v, alloc0), Gt(v, IntLit(0))))
		// captured variables are distinct cells
		for _, o := range fvPtrs {
			c.Assume(Neq(v, o))
		}
		fvPtrs = append(fvPtrs, v)
	}
	fx.ghosts = map[string]specVal{}
	for _, g := range fx.beh.Ghosts {
		t, err := e.resolveType(u.Con.Pkg, g.Type)
		if err != nil {
			panic(specErr(err.Error()))
		}
		v := c.Const("g_"+g.Name, e.sortOf(t))
		if isStringT(t) {
			v = MkStr(c.Const("g_"+g.Name+"_arr", SArrI), c.Const("g_"+g.Name+"_len", SInt))
		}
		fx.ghosts[g.Name] = specVal{v, t}
		fx.assumeType(st, v, t)
	}
	fx.entry = st
	env := fx.specEnvEntry()
	for _, r := range fx.beh.Requires {
		c.Assume(env.boolExpr(r.Expr))
	}
	c.AddObl(&Obligation{Name: u.Name + "/cover:requires", Func: fn.String(), Beh: fx.behName, Kind: "cover", Guard: True, Goal: False, Cover: true, Pos: fx.pos(fn.Pos())})
	fx.run()
	// postconditions at each return
	for i, r := range fx.rets {
		renv := fx.specEnvReturn(r)
		var prev []*Term
		for k, en := range fx.beh.Ensures {
			if en.Assumed {
				// not verified here (and not available to the clauses that follow): callers assume it
				fx.trusted("assumed clause of " + fn.String() + " (not verified against the body): ensures " + en.Text)
				continue
			}
			t := renv.boolExpr(en.Expr)
			fx.obligN(r.st, "ensures", fmt.Sprintf("%d@ret%d", k, i), r.pos, Implies(And(prev...), t), r.nassume)
			prev = append(prev, t)
		}
	}
	if len(fx.rets) > 0 {
		var gs []*Term
		for _, r := range fx.rets {
			gs = append(gs, r.st.guard)
		}
		c.AddObl(&Obligation{Name: u.Name + "/cover:return", Func: fn.String(), Beh: fx.behName, Kind: "cover", Guard: Or(gs...), Goal: False, Cover: true, Pos: fx.pos(fn.Pos())})
	}
	// frame: a call whose effects are unknown (no contract, not inlined) may change any memory; a unit that
	// makes one cannot promise a frame, its contract has to say `assigns anything` (callers then forget the heap)
	if len(fx.opaqueUsed) > 0 && !fx.beh.AssignsAny {
		var names []string
		for n := range fx.opaqueUsed {
			names = append(names, n)
		}
		sort.Strings(names)
		c.AddObl(&Obligation{Name: u.Name + "/assigns:unknown-callee-effects", Func: fn.String(), Beh: fx.behName, Kind: "assigns", Guard: True, Goal: False, Pos: fx.pos(fn.Pos()),
			Note: "calls with unknown effects: " + strings.Join(names, ", ") + " -- the contract must say `assigns anything`"})
	}
	fx.addAxioms(u.Con.Pkg)
	if len(fx.beh.FinalHeap) > 0 {
		if len(fx.beh.Assigns) > 0 || fx.beh.AssignsAny {
			res.Err = "finalheap needs `assigns nothing` (the unit must not change objects that existed on entry)"
			return res
		}
		for i, r := range fx.rets {
			for _, ax := range fx.e.axioms {
				if ax.Lemma || ax.Manual {
					continue
				}
				ok := false
				for _, pre := range fx.beh.FinalHeap {
					if strings.HasPrefix(ax.Name, pre) {
						ok = true
					}
				}
				if !ok {
					continue
				}
				env := &SpecEnv{fx: fx, pkg: ax.Pkg, vars: map[string]specVal{}, st: r.st, where: "axiom " + ax.Name + " at return"}
				if ax.Pkg == "" {
					env.pkg = u.Con.Pkg
				}
				fx.c.Axiom(fmt.Sprintf("axiom %s over the heap at return %d", ax.Name, i), Implies(r.st.guard, env.boolExpr(ax.Expr)))
			}
		}
		fx.trusted("finalheap " + strings.Join(fx.beh.FinalHeap, ",") + ": these axioms are also read over the heap at each return (objects built by this unit)")
	}
	res.Obls = c.obls
	for ax := range fx.lemmasUsed {
		res.Lemmas = append(res.Lemmas, ax)
	}
	for k := range fx.trustedUsed {
		res.Trusted = append(res.Trusted, k)
	}
	sort.Strings(res.Trusted)
	return res
}

// addAxioms includes every axiom/lemma (from the package's contract file and the
// global spec files) that talks about a spec function the VC uses.
func (fx *FnExec) addAxioms(pkg string) {
	used := map[*Axiom]bool{}
	for changed := true; changed; {
		changed = false
		for _, ax := range fx.e.axioms {
			if used[ax] {
				continue
			}
			if ax.Pkg != "" && ax.Pkg != pkg {
				// an axiom of another package's contract file: usable when this unit refers to that package's spec
				// functions (pkg.f in a contract) and none of the names it mentions is also defined by this package
				if ax.Manual || ax.Lemma {
					continue
				}
				names := map[string]bool{}
				collectCalls(ax.Expr, names)
				ambiguous, mentionsOwn := false, false
				for n := range names {
					if _, own := fx.e.specs[pkg+"\x00"+n]; own {
						ambiguous = true
					}
					if sf, ok := fx.e.specs[ax.Pkg+"\x00"+n]; ok && sf != nil && fx.c.HasDecl("spec_"+n) {
						mentionsOwn = true
					}
				}
				if ambiguous || !mentionsOwn {
					continue
				}
			}
			if ax.Manual {
				ok := false
				if r := fx.root(); r.con != nil {
					for _, u := range r.con.Uses {
						if u == ax.Name {
							ok = true
						}
					}
				}
				if !ok {
					continue
				}
			}
			names := map[string]bool{}
			collectCalls(ax.Expr, names)
			relevant := false
			for n := range names {
				if fx.c.HasDecl("spec_" + n) {
					relevant = true
				}
			}
			if !relevant {
				continue
			}
			used[ax] = true
			changed = true
			t := fx.lemmaTerm(ax, pkg)
			kind := "axiom"
			if ax.Lemma {
				kind = "lemma"
			}
			fx.c.Axiom(kind+" "+ax.Name, t)
			if ax.Lemma {
				fx.usedLemma(ax)
			} else {
				fx.trusted("axiom " + ax.Name + ": " + ax.Text)
			}
		}
	}
}

func (fx *FnExec) usedLemma(ax *Axiom) {
	r := fx.root()
	if r.lemmasUsed == nil {
		r.lemmasUsed = map[*Axiom]bool{}
	}
	r.lemmasUsed[ax] = true
}

func collectCalls(e *SExpr, out map[string]bool) {
	if e == nil {
		return
	}
	if e.Kind == "call" {
		out[e.Name] = true
	}
	if e.Kind == "ident" {
		out[e.Name] = true
	}
	for _, a := range e.Args {
		collectCalls(a, out)
	}
}

// ---------------------------------------------------------------------------
// environments

func (fx *FnExec) baseVars() map[string]specVal {
	m := map[string]specVal{}
	for k, v := range fx.params {
		m[k] = v
	}
	for k, v := range fx.ghosts {
		m[k] = v
	}
	return m
}

func (fx *FnExec) pkgPath() string {
	if fx.con != nil && fx.con.Pkg != "" {
		return fx.con.Pkg
	}
	f := fx.fn
	for f.Pkg == nil && f.Parent() != nil {
		f = f.Parent()
	}
	if f.Pkg != nil {
		return f.Pkg.Pkg.Path()
	}
	return ""
}

func (fx *FnExec) ownFvs() map[string]fvBinding {
	if len(fx.fn.FreeVars) == 0 {
		return nil
	}
	m := map[string]fvBinding{}
	for _, fv := range fx.fn.FreeVars {
		if p, ok := fx.freeCells[fv]; ok {
			m[fv.Name()] = fvBinding{p, fv.Type().(*types.Pointer).Elem()}
		}
	}
	return m
}

func (fx *FnExec) specEnvEntry() *SpecEnv {
	return &SpecEnv{fx: fx, pkg: fx.pkgPath(), vars: fx.baseVars(), st: fx.entry, old: fx.entry, where: fx.fn.Name() + " (entry)", fvs: fx.ownFvs()}
}

func (fx *FnExec) specEnvReturn(r retInfo) *SpecEnv {
	env := &SpecEnv{fx: fx, pkg: fx.pkgPath(), vars: fx.baseVars(), st: r.st, old: fx.entry, where: fx.fn.Name() + " (ensures)", fvs: fx.ownFvs()}
	names := resultNames(fx.fn.Signature)
	for i, v := range r.vals {
		env.vars[names[i]] = specVal{v, fx.fn.Signature.Results().At(i).Type()}
		if len(r.vals) == 1 {
			env.vars["result"] = env.vars[names[i]]
		}
	}
	return env
}

// loopPositions returns, per loop ordinal, a position inside the loop body scope.
func (fx *FnExec) loopPositions() []token.Pos {
	var out []token.Pos
	for _, s := range fx.loopStmts() {
		switch x := s.(type) {
		case *ast.ForStmt:
			out = append(out, x.Body.Lbrace+1)
		case *ast.RangeStmt:
			out = append(out, x.Body.Lbrace+1)
		}
	}
	return out
}

// loopStmts returns the for/range statements of the function in source order.
func (fx *FnExec) loopStmts() []ast.Stmt {
	var out []ast.Stmt
	syn := fx.fn.Syntax()
	if syn == nil {
		return nil
	}
	var body *ast.BlockStmt
	switch s := syn.(type) {
	case *ast.FuncDecl:
		body = s.Body
	case *ast.FuncLit:
		body = s.Body
	}
	if body == nil {
		return nil
	}
	ast.Inspect(body, func(n ast.Node) bool {
		switch s := n.(type) {
		case *ast.FuncLit:
			return false
		case *ast.ForStmt:
			out = append(out, s)
		case *ast.RangeStmt:
			out = append(out, s)
		}
		return true
	})
	return out
}

// specEnvAt builds the environment for invariants at a loop head: names refer
// to the current values of the local variables in scope there.
func (fx *FnExec) specEnvAt(st *State, head *ssa.BasicBlock) *SpecEnv {
	li := fx.loops[head]
	lp := fx.loopPositions()
	if len(lp) != len(fx.loops) {
		fx.fail("loop count mismatch: %d for/range statements, %d SSA loops", len(lp), len(fx.loops))
	}
	pos := lp[li.ordinal]
	env := &SpecEnv{fx: fx, pkg: fx.pkgPath(), vars: map[string]specVal{}, st: st, old: fx.entry, where: fmt.Sprintf("%s (loop %d)", fx.fn.Name(), li.ordinal), fvs: fx.ownFvs()}
	for k, v := range fx.ghosts {
		env.vars[k] = v
	}
	env.locals = func(name string) (specVal, bool) { return fx.localAt(st, name, pos) }
	if li.entrySt != nil {
		est := li.entrySt
		env.entrySt = est
		env.entryLocals = func(name string) (specVal, bool) { return fx.localAt(est, name, pos) }
	}
	// visited(k): the keys already handed out by this range loop over a map
	for _, ins := range head.Instrs {
		if nx, ok := ins.(*ssa.Next); ok && !nx.IsString {
			if it, ok := fx.vals[nx.Iter]; ok && fx.mapIter[nx.Iter] != nil {
				env.mapIt, env.mapItInfo = it, fx.mapIter[nx.Iter]
			}
		}
	}
	// range_at<N>: the index loop N (an enclosing range loop) is currently visiting
	for h2, l2 := range fx.loops {
		if l2 == li || len(h2.Instrs) == 0 {
			continue
		}
		if ld, ok := h2.Instrs[0].(*ssa.UnOp); ok && ld.Op == token.MUL {
			if ra, ok := ld.X.(*ssa.Alloc); ok && ra.Comment == "rangeindex" {
				if cur, ok := st.cells[ra]; ok {
					env.vars[fmt.Sprintf("range_at%d", l2.ordinal)] = specVal{cur, tInt}
				}
			}
		}
	}
	// range loops over slices: at the loop head the hidden cell "rangeindex" holds
	// the previous index; the key variable (and the pseudo variable range_i) denote
	// the index about to be visited, i.e. the number of completed iterations
	if rs, ok := fx.loopStmts()[li.ordinal].(*ast.RangeStmt); ok && len(head.Instrs) > 0 {
		if ld, ok := head.Instrs[0].(*ssa.UnOp); ok && ld.Op == token.MUL {
			if ra, ok := ld.X.(*ssa.Alloc); ok && ra.Comment == "rangeindex" {
				if cur, ok := st.cells[ra]; ok {
					next := specVal{Add(cur, IntLit(1)), tInt}
					env.vars["range_i"] = next
					if id, ok := rs.Key.(*ast.Ident); ok && id.Name != "_" {
						key := id.Name
						inner := env.locals
						env.locals = func(name string) (specVal, bool) {
							if name == key {
								return next, true
							}
							return inner(name)
						}
					}
				}
			}
		}
	}
	return env
}

// localAt resolves a source-level variable name at a position to its current value.
func (fx *FnExec) localAt(st *State, name string, pos token.Pos) (specVal, bool) {
	var obj types.Object
	f := fx.fn
	for f.Pkg == nil && f.Parent() != nil {
		f = f.Parent()
	}
	if f.Pkg != nil {
		if pp := fx.e.ppkgs[f.Pkg.Pkg.Path()]; pp != nil {
			if sc := pp.Types.Scope().Innermost(pos); sc != nil {
				_, obj = sc.LookupParent(name, pos)
			}
		}
	}
	if obj == nil {
		return specVal{}, false
	}
	if _, isVar := obj.(*types.Var); !isVar {
		return specVal{}, false
	}
	for _, b := range fx.fn.Blocks {
		for _, ins := range b.Instrs {
			a, ok := ins.(*ssa.Alloc)
			if !ok || a.Comment != name || a.Pos() != obj.Pos() {
				continue
			}
			et := a.Type().(*types.Pointer).Elem()
			if !types.Identical(et, obj.Type()) {
				continue // implicit variables of a type switch share name and position
			}
			if !a.Heap {
				v, ok := st.cells[a]
				if !ok {
					return specVal{}, false
				}
				return specVal{v, et}, true
			}
			r, ok := fx.vals[a]
			if !ok {
				return specVal{}, false
			}
			if _, isS := et.Underlying().(*types.Struct); isS {
				return specVal{fx.readObj(st, r, et), et}, true
			}
			hn, hs := fx.pheapName(et)
			return specVal{Select(fx.heapGet(st, hn, hs), r), et}, true
		}
	}
	// parameters are spilled to cells named after them; their Pos is the parameter's
	for _, fv := range fx.fn.FreeVars {
		if fv.Name() == name {
			et := fv.Type().(*types.Pointer).Elem()
			hn, hs := fx.pheapName(et)
			return specVal{Select(fx.heapGet(st, hn, hs), fx.freeCells[fv]), et}, true
		}
	}
	// parameter without a cell (never spilled)
	if v, ok := fx.params[name]; ok {
		return v, true
	}
	return specVal{}, false
}

// knownExternal gives built-in semantics to a few ubiquitous externals.
func (fx *FnExec) knownExternal(st *State, full string, fn *ssa.Function, args []*Term, p token.Pos) ([]*Term, bool) {
	switch full {
	case "github.com/pkg/errors.Errorf", "github.com/pkg/errors.New", "errors.New", "fmt.Errorf", "github.com/pkg/errors.WithStack", "github.com/pkg/errors.Wrapf", "github.com/pkg/errors.Wrap":
		r := fx.newRef(st)
		tag := IntLit(int64(fx.e.typeTag(types.NewNamed(types.NewTypeName(token.NoPos, nil, "errors.errorString", nil), types.Typ[types.Int], nil))))
		e := MkIfc(tag, r)
		if strings.HasSuffix(full, "WithStack") || strings.Contains(full, "Wrap") {
			// nil in, nil out
			return []*Term{Ite(Eq(IfcTag(args[0]), IntLit(0)), NilIfc, e)}, true
		}
		return []*Term{e}, true
	case "strings.IndexByte", "strings.ContainsRune", "strings.IndexRune":
		// on a constant string the answer is a mechanically computed byte-set membership
		if cs, ok := constStringOf(args[0]); ok && (full == "strings.IndexByte" || isASCII(cs)) {
			c := args[1]
			var present [256]bool
			for i := 0; i < len(cs); i++ {
				present[cs[i]] = true
			}
			var rs []*Term
			for b := 0; b < 256; {
				if !present[b] {
					b++
					continue
				}
				e := b
				for e+1 < 256 && present[e+1] {
					e++
				}
				if e == b {
					rs = append(rs, Eq(c, IntLit(int64(b))))
				} else {
					rs = append(rs, And(Le(IntLit(int64(b)), c), Le(c, IntLit(int64(e)))))
				}
				b = e + 1
			}
			member := Or(rs...)
			if full == "strings.ContainsRune" {
				return []*Term{member}, true
			}
			r := fx.c.Fresh("idx", SInt)
			fx.c.Assume(Implies(st.guard, And(Eq(Eq(r, IntLit(-1)), Not(member)), Ge(r, IntLit(-1)), Lt(r, IntLit(int64(len(cs)))),
				Implies(Ge(r, IntLit(0)), Eq(StrAt(args[0], r), c)))))
			return []*Term{r}, true
		}
	case "sort.Slice":
		if r, ok := fx.sortSlice(st, args, p); ok {
			return r, true
		}
	case modPath + "/internal/natsort.Strings":
		if r, ok := fx.natsortStrings(st, fn, args); ok {
			return r, true
		}
	case "fmt.Sprintf", "fmt.Sprint", "fmt.Sprintln":
		v := fx.c.Fresh("sprintf", SStr)
		fx.assumeType(st, v, tStr)
		return []*Term{v}, true
	}
	return nil, false
}

func isASCII(s string) bool {
	for i := 0; i < len(s); i++ {
		if s[i] >= 0x80 {
			return false
		}
	}
	return true
}

// VerifyAll verifies the units and, transitively, every lemma they use.
func (e *Engine) VerifyAll(units []*Unit, each func(*UnitResult)) {
	done := map[*Axiom]bool{}
	var queue []*Axiom
	add := func(r *UnitResult) {
		ls := append([]*Axiom{}, r.Lemmas...)
		sort.Slice(ls, func(i, j int) bool { return ls[i].Name < ls[j].Name })
		for _, l := range ls {
			if !done[l] {
				done[l] = true
				queue = append(queue, l)
			}
		}
	}
	for _, u := range units {
		r := e.VerifyUnit(u)
		add(r)
		each(r)
	}
	for len(queue) > 0 {
		l := queue[0]
		queue = queue[1:]
		r := e.VerifyLemma(l)
		add(r)
		each(r)
	}
}


// sortSlice: sort.Slice(x, less) for a slice of integers. The precondition "less(i, j)
// is x[i] < x[j]" is discharged by executing the closure body on symbolic indices; the
// effect is the assumed contract of sort.Slice (A6): the elements are permuted (a
// bijection of the index range) into ascending order, nothing else changes.
func (fx *FnExec) sortSlice(st *State, args []*Term, p token.Pos) ([]*Term, bool) {
	call, ok := fx.curInstr.(*ssa.Call)
	if !ok || len(call.Call.Args) != 2 {
		return nil, false
	}
	mi, ok := call.Call.Args[0].(*ssa.MakeInterface)
	if !ok {
		return nil, false
	}
	slT, ok := mi.X.Type().Underlying().(*types.Slice)
	if !ok {
		return nil, false
	}
	if b, ok := slT.Elem().Underlying().(*types.Basic); !ok || b.Info()&types.IsInteger == 0 {
		return nil, false
	}
	ci := closures[args[1].String()]
	if ci == nil {
		return nil, false
	}
	xs := fx.val(st, mi.X)
	hn, hs := fx.elemHeapName(slT.Elem())
	h := fx.heapGet(st, hn, hs)
	oldArr := Select(h, SlcBase(xs))
	off, ln := SlcOff(xs), SlcLen(xs)
	// precondition: less is < on the elements
	i, j := fx.c.Fresh("srt_i", SInt), fx.c.Fresh("srt_j", SInt)
	st2 := st.clone()
	st2.guard = fx.c.Name("g", And(st.guard, Le(IntLit(0), i), Lt(i, ln), Le(IntLit(0), j), Lt(j, ln)))
	res := fx.inline(st2, ci.fn, nil, []*Term{i, j}, ci.bindings, p)
	fx.oblig(st2, "call-pre", "sort.Slice:less-is-lt", p, Eq(res[0], Lt(Select(oldArr, Add(off, i)), Select(oldArr, Add(off, j)))))
	// effect
	fx.sortedPerm(st, xs, slT.Elem(), func(x, y *Term) *Term { return Le(x, y) },
		"assumed contract of sort.Slice (A6): given that less(i, j) is x[i] < x[j] (checked at the call), the elements of x are permuted (a bijection of the index range; hence pairwise distinct elements stay pairwise distinct) into ascending order and nothing else changes")
	return []*Term{}, true
}


// sortedPerm: the elements of slice xs are permuted so that leq(x[a], x[b]) for a < b.
func (fx *FnExec) sortedPerm(st *State, xs *Term, elem types.Type, leq func(x, y *Term) *Term, why string) {
	hn, hs := fx.elemHeapName(elem)
	h := fx.heapGet(st, hn, hs)
	oldArr := Select(h, SlcBase(xs))
	off, ln := SlcOff(xs), SlcLen(xs)
	fx.trusted(why)
	newArr := fx.c.Fresh("sorted", oldArr.S)
	{
		// the elements are values of the element type
		kk := Var("k!t", SInt)
		ek := App("select", oldArr.S.elemSort(), newArr, kk)
		if inv := fx.typeInv(ek, elem, fx.entryAlloc); !inv.IsTrue() && !strings.Contains(inv.String(), "forall") {
			fx.c.Assume(Forall([]*Term{kk}, inv, ek))
		}
	}
	fx.c.nfresh++
	pi := fmt.Sprintf("perm_%d", fx.c.nfresh)
	pinv := fmt.Sprintf("perminv_%d", fx.c.nfresh)
	fx.c.DeclareFun(pi, []Sort{SInt}, SInt)
	fx.c.DeclareFun(pinv, []Sort{SInt}, SInt)
	fx.heapSet(st, hn, Store(h, SlcBase(xs), newArr))
	h2 := fx.heapGet(st, hn, hs)
	a, b := Var("a!s", SInt), Var("b!s", SInt)
	inRange := func(x *Term) *Term { return And(Le(IntLit(0), x), Lt(x, ln)) }
	rdN := func(x *Term) *Term { return fx.elemAt(h2, xs, x) }
	rdO := func(x *Term) *Term { return fx.elemAt(h, xs, x) }
	eq := func(x, y *Term) *Term { return fx.valEq(x, y, elem) }
	piA, pinvB := App(pi, SInt, a), App(pinv, SInt, b)
	k := Var("k!s", SInt)
	es := oldArr.S.elemSort()
	fx.c.Assume(Implies(st.guard, And(
		// in order
		Forall([]*Term{a, b}, Implies(And(Le(IntLit(0), a), Lt(a, b), Lt(b, ln)), leq(rdN(a), rdN(b))), rdN(a), rdN(b)),
		// a permutation of the old contents: new[a] == old[pi(a)], pi a bijection of the index range
		Forall([]*Term{a}, Implies(inRange(a), And(Eq(rdN(a), rdO(piA)), inRange(piA), Eq(App(pinv, SInt, piA), a))), rdN(a)),
		Forall([]*Term{b}, Implies(inRange(b), And(inRange(pinvB), Eq(App(pi, SInt, pinvB), b), Eq(rdN(pinvB), rdO(b)))), rdO(b)),
		// consequence of bijectivity: pairwise distinct elements stay pairwise distinct
		Implies(Forall([]*Term{a, b}, Implies(And(Le(IntLit(0), a), Lt(a, b), Lt(b, ln)), Not(eq(rdO(a), rdO(b)))), rdO(a), rdO(b)),
			Forall([]*Term{a, b}, Implies(And(Le(IntLit(0), a), Lt(a, b), Lt(b, ln)), Not(eq(rdN(a), rdN(b)))), rdN(a), rdN(b))),
		// outside the slice nothing changes
		Forall([]*Term{k}, Implies(Not(And(Le(off, k), Lt(k, Add(off, ln)))), Eq(App("select", es, newArr, k), App("select", es, oldArr, k))), App("select", es, newArr, k)))))
}

// natsortStrings: natsort.Strings(a) sorts through sort.Sort (assumed contract, A6): the
// strings are permuted so that no later one is Less than an earlier one, Less being the
// real comparison function applied as a pure function (static obligation pure-funcs).
func (fx *FnExec) natsortStrings(st *State, fn *ssa.Function, args []*Term) ([]*Term, bool) {
	pkg := fx.e.pkgs[modPath+"/internal/natsort"]
	if pkg == nil {
		return nil, false
	}
	less := pkg.Func("Less")
	if less == nil || !fx.pureFuncOf(less) {
		return nil, false
	}
	leq := func(x, y *Term) *Term {
		return Not(fx.pureApply(st, less.String(), less.Signature, nil, []*Term{y, x}, false)[0])
	}
	fx.sortedPerm(st, args[0], tStr, leq,
		"assumed contract of sort.Sort as used by natsort.Strings (A6): the strings are permuted (a bijection of the index range) so that no later one is natsort.Less than an earlier one, and nothing else changes")
	return []*Term{}, true
}
