package main

// Solver driver: one SMT-LIB2 file per obligation, raced on z3 4.8.12,
// z3-new 5.1.0 and cvc5.

import (
	"bytes"
	"context"
	"fmt"
	"os"
	"os/exec"
	"path/filepath"
	"strings"
	"sync"
	"time"
)

type SolveResult struct {
	Status  string // unsat sat unknown timeout error trivial
	Solver  string
	TimeS   float64
	Output  string
	AllRuns map[string]string // solver -> status (thorough)
	Model   map[string]string
}

type solverSpec struct {
	name string
	argv func(file string, timeoutS int) []string
}

var solvers = []solverSpec{
	{"z3-new-5.1.0", func(f string, t int) []string { return []string{"z3-new", fmt.Sprintf("-T:%d", t), f} }},
	{"z3-4.8.12", func(f string, t int) []string { return []string{"z3", fmt.Sprintf("-T:%d", t), f} }},
	{"cvc5-1.0", func(f string, t int) []string { return []string{"cvc5", fmt.Sprintf("--tlimit=%d", t*1000), f} }},
}

// firstLine: the first output line that is not a solver warning.
func firstLine(s string) string {
	for _, l := range strings.Split(strings.TrimSpace(s), "\n") {
		l = strings.TrimSpace(l)
		if l == "" || strings.HasPrefix(l, "WARNING") || strings.HasPrefix(l, "(warning") {
			continue
		}
		return l
	}
	return strings.TrimSpace(s)
}

func runSolver(ctx context.Context, sp solverSpec, file string, timeoutS int) (status, out string, dur float64) {
	argv := sp.argv(file, timeoutS)
	cctx, cancel := context.WithTimeout(ctx, time.Duration(timeoutS+2)*time.Second)
	defer cancel()
	cmd := exec.CommandContext(cctx, argv[0], argv[1:]...)
	var buf bytes.Buffer
	cmd.Stdout = &buf
	cmd.Stderr = &buf
	t0 := time.Now()
	_ = cmd.Run()
	dur = time.Since(t0).Seconds()
	out = buf.String()
	fl := firstLine(out)
	switch fl {
	case "unsat", "sat", "unknown":
		return fl, out, dur
	case "timeout":
		return "timeout", out, dur
	}
	if ctx.Err() != nil {
		return "cancelled", out, dur
	}
	if cctx.Err() != nil {
		return "timeout", out, dur
	}
	if strings.Contains(out, "interrupted by timeout") || strings.Contains(out, "timeout") {
		return "timeout", out, dur
	}
	return "error", out, dur
}

// crossCheckGraceS: in the thorough tier, how long the remaining solvers may go on after the first definite answer
const crossCheckGraceS = 8

// solveOne races the solvers; all=true waits for every solver (thorough tier).
func solveOne(o *Obligation, dir string, idx int, timeoutS int, all bool) *SolveResult {
	if !o.Cover && o.Goal.IsTrue() {
		return &SolveResult{Status: "unsat", Solver: "simplifier"}
	}
	if o.Guard.IsFalse() {
		if o.Cover {
			return &SolveResult{Status: "unsat", Solver: "simplifier"}
		}
		return &SolveResult{Status: "unsat", Solver: "simplifier"}
	}
	if o.Cover && timeoutS > 1 {
		timeoutS = 1 // a cover only has to fail to be refuted quickly
		all = false
	}
	file := filepath.Join(dir, fmt.Sprintf("o%05d.smt2", idx))
	if err := os.WriteFile(file, []byte(smtText(o, false)), 0o644); err != nil {
		return &SolveResult{Status: "error", Output: err.Error()}
	}
	ctx, cancel := context.WithCancel(context.Background())
	defer cancel()
	type r struct {
		sp          solverSpec
		status, out string
		dur         float64
	}
	ch := make(chan r, len(solvers))
	for _, sp := range solvers {
		sp := sp
		go func() {
			s, out, d := runSolver(ctx, sp, file, timeoutS)
			ch <- r{sp, s, out, d}
		}()
	}
	res := &SolveResult{Status: "unknown", AllRuns: map[string]string{}}
	var outs []string
	var graceTimer *time.Timer
	for i := 0; i < len(solvers); i++ {
		x := <-ch
		res.AllRuns[x.sp.name] = x.status
		if x.status == "unsat" || x.status == "sat" {
			if res.Status != "unsat" && res.Status != "sat" {
				res.Status, res.Solver, res.TimeS = x.status, x.sp.name, x.dur
			} else if res.Status != x.status {
				res.Status = "error"
				res.Output = fmt.Sprintf("solver disagreement: %v", res.AllRuns)
			}
			if !all {
				cancel()
				break
			}
			// thorough tier: the other solvers get a bounded extra budget to cross-check the answer
			if graceTimer == nil {
				graceTimer = time.AfterFunc(time.Duration(crossCheckGraceS)*time.Second, cancel)
				defer graceTimer.Stop()
			}
		} else {
			outs = append(outs, fmt.Sprintf("%s: %s (%.1fs) %s", x.sp.name, x.status, x.dur, trunc(firstLine(x.out), 200)))
			if x.status == "timeout" && res.Status == "unknown" {
				res.Status = "timeout"
			}
		}
	}
	if res.Status != "unsat" && res.Status != "sat" {
		res.Output = strings.Join(outs, "; ")
	}
	return res
}

func trunc(s string, n int) string {
	if len(s) > n {
		return s[:n] + "..."
	}
	return s
}

// getModel re-runs a failed obligation with model extraction.
func getModel(o *Obligation, dir string, idx int, timeoutS int) map[string]string {
	if len(o.ModelVars) == 0 {
		return nil
	}
	file := filepath.Join(dir, fmt.Sprintf("m%05d.smt2", idx))
	if err := os.WriteFile(file, []byte(smtText(o, true)), 0o644); err != nil {
		return nil
	}
	for _, sp := range []solverSpec{solvers[0], solvers[1]} {
		status, out, _ := runSolver(context.Background(), sp, file, timeoutS)
		if status != "sat" {
			continue
		}
		m := map[string]string{}
		lines := strings.Split(out, "\n")
		for i := 0; i < len(lines); i++ {
			l := strings.TrimSpace(lines[i])
			l = strings.Trim(l, "\"")
			if strings.HasPrefix(l, "@@ ") {
				name := strings.TrimSpace(l[3:])
				var val []string
				for j := i + 1; j < len(lines) && !strings.HasPrefix(strings.Trim(strings.TrimSpace(lines[j]), "\""), "@@ "); j++ {
					val = append(val, strings.TrimSpace(lines[j]))
					i = j
				}
				m[name] = strings.Join(val, " ")
			}
		}
		return m
	}
	return nil
}

// Terms cache their printed form lazily; printing is serialised.
var smtMu sync.Mutex

func smtText(o *Obligation, model bool) string {
	smtMu.Lock()
	defer smtMu.Unlock()
	return o.SMT(model)
}

type oblResult struct {
	O *Obligation
	R *SolveResult
}

func solveAll(obls []*Obligation, jobs, timeoutS int, all bool) []oblResult {
	dir, err := os.MkdirTemp("", "govc-smt-")
	if err != nil {
		panic(err)
	}
	defer os.RemoveAll(dir)
	out := make([]oblResult, len(obls))
	var wg sync.WaitGroup
	sem := make(chan struct{}, jobs)
	for i, o := range obls {
		wg.Add(1)
		sem <- struct{}{}
		go func(i int, o *Obligation) {
			defer wg.Done()
			defer func() { <-sem }()
			r := solveOne(o, dir, i, timeoutS, all)
			if r.Status == "sat" && !o.Cover {
				r.Model = getModel(o, dir, i, timeoutS)
			}
			out[i] = oblResult{o, r}
		}(i, o)
	}
	wg.Wait()
	return out
}
