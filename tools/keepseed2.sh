#!/bin/bash
# usage: tools/keepseed2.sh <ID> <a|b>  -- confirms a round-2 sub-agent change (from /tmp/seed/<ID>-out/<x>) in a scratch
# worktree of /repo HEAD and keeps it under /verif/seeded/<ID>-2<x>
export GOFLAGS=-mod=mod GOPROXY=off GOSUMDB=off GOTOOLCHAIN=local
id="$1"; x="$2"; round="${3:-2}"; sd=/tmp/seed; [ "$round" = 3 ] && sd=/tmp/seed3; [ "$round" = 4 ] && sd=/tmp/seed4; [ "$round" = 5 ] && sd=/tmp/seed5; [ "$round" = 6 ] && sd=/tmp/seed6; [ "$round" = 7 ] && sd=/tmp/seed7; [ "$round" = 8 ] && sd=/tmp/seed8; name="$id-$round$x"; src=$sd/$id-out/$x; wt=/tmp/seedchk-$name
set -e
test -f $src/patch.diff && test -f $src/meta.json
rm -rf $wt; git -C /repo worktree add -q --detach $wt HEAD
head=$(git -C /repo rev-parse --short HEAD)
dir=$(python3 -c "import json;print(json.load(open('$src/meta.json'))['demo_pkg_dir'])")
demo=$(ls $src/*_test.go | head -1)
run=$(python3 -c "import json,re;r=json.load(open('$src/meta.json'))['demo_run'];m=re.search(r'-run[ =]+(\S+)',r);print(m.group(1).strip('\'\"') if m else r)")
RACE=$(python3 -c "import json;print('-race' if '-race' in json.load(open('$src/meta.json'))['demo_run'] else '')")
cp $demo $wt/$dir/zz_demo_test.go
set +e
(cd $wt && go test $RACE -vet=off -count=1 -run "$run" ./$dir > /tmp/seedchk-$name.base 2>&1); base=$?
git -C $wt apply $src/patch.diff || { echo "PATCH DOES NOT APPLY"; git -C /repo worktree remove --force $wt; exit 1; }
(cd $wt && go test $RACE -vet=off -count=1 -run "$run" ./$dir > /tmp/seedchk-$name.mut 2>&1); mut=$?
rm $wt/$dir/zz_demo_test.go
(cd $wt && go build ./... && go test -vet=off -count=1 ./... > /tmp/seedchk-$name.suite 2>&1); suite=$?
git -C /repo worktree remove --force $wt
echo "demo on unchanged: exit $base (want 0); demo with change: exit $mut (want !=0); suite with change: exit $suite (want 0)"
if [ $base -eq 0 ] && [ $mut -ne 0 ] && [ $suite -eq 0 ]; then
  mkdir -p /verif/seeded/$name
  cp $src/patch.diff /verif/seeded/$name/patch.diff
  cp $demo /verif/seeded/$name/zz_demo_test.go.txt
  python3 - <<P
import json
m=json.load(open('$src/meta.json'))
m['confirmed']={'demo_on_unchanged_exit':$base,'demo_with_change_exit':$mut,'suite_with_change_exit':$suite,
  'how':'fresh worktree of /repo at $head under /tmp; demo run before and after git apply; full suite (go test -vet=off -count=1 ./...) with the change; worktree removed'}
m['demo_file']='zz_demo_test.go.txt (rename to zz_demo_test.go inside demo_pkg_dir)'
m["round"]='$round'
json.dump(m,open('/verif/seeded/$name/meta.json','w'),indent=1)
P
  echo KEPT /verif/seeded/$name
else
  echo REJECTED; tail -n 5 /tmp/seedchk-$name.base /tmp/seedchk-$name.mut /tmp/seedchk-$name.suite
fi
rm -f /tmp/seedchk-$name.*
