#!/bin/bash
# Must-fail corpus: every mutant (a change that breaks a property while compiling) must make at least one
# obligation of the named unit fail; the kept seeded changes are run through the real checks.
# usage: tools/selftest.sh [mutants|seeds|all]
cd "$(dirname "$0")/.."
export GOFLAGS=-mod=mod GOPROXY=off GOSUMDB=off GOTOOLCHAIN=local
what="${1:-all}"; bad=0
if [ "$what" != seeds ]; then
 while IFS=$'\t' read -r f pkgs filt desc; do
  [ -z "$f" ] && continue
  if [ "$pkgs" = CHECK ]; then
   # static / evaluation obligations: run the whole check of property $filt on a scratch copy
   rm -rf /tmp/mut && rsync -a --exclude .git /repo/ /tmp/mut/ && (cd /tmp/mut && patch -p1 -s < /verif/selftest/mutants/$f)
   out=$(bin/govc check -repo /tmp/mut -prop "$filt" -tier quick -evidence /tmp/selftest-evidence.json 2>&1 | grep -v "obligation=bounded:" | sed 's/^VIOLATION/  FAIL VIOLATION/'); rm -rf /tmp/mut
  else
   out=$(tools/trymut.sh $PWD/selftest/mutants/$f "$pkgs" "$filt" 2>&1)
  fi
  if echo "$out" | grep -q "^  FAIL"; then echo "ok   $f  ($desc): $(echo "$out" | grep -c '^  FAIL') obligations fail"; else echo "MISS $f  ($desc)"; bad=1; fi
 done < selftest/mutants/INDEX.tsv
fi
if [ "$what" != mutants ]; then
 # every kept seeded change must be reported by the registered check of its property (scratch copies; 3 at a time)
 one() {
  d="$1"; id=$(basename $d); prop=$(python3 -c "import json;print(json.load(open('$d/meta.json'))['property'])")
  out=$(tools/runseed.sh $id $prop 2>&1)
  if echo "$out" | grep -q "^VIOLATION property=$prop"; then echo "ok   seed $id: $(echo "$out" | grep -c '^VIOLATION') violations"; else echo "MISS seed $id"; echo "$out" | tail -3; fi
 }
 export -f one
 res=$(ls -d seeded/*/ | xargs -P ${SELFTEST_JOBS:-3} -I{} bash -c 'one {}')
 echo "$res" | sort
 if echo "$res" | grep -q "^MISS"; then bad=1; fi
fi
exit $bad
