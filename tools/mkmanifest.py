#!/usr/bin/env python3
"""Regenerates /verif/MANIFEST.json from tools/claims.json (kept valid at all times)."""
import json, os, subprocess, sys
here = os.path.dirname(os.path.abspath(__file__))
root = os.path.dirname(here)
claims = json.load(open(os.path.join(here, "claims.json")))
props = [json.loads(l)["id"] for l in open(os.path.join(root, "properties.jsonl"))]
commits = subprocess.run(["git", "-C", "/repo", "log", "--format=%H %s"], capture_output=True, text=True).stdout.splitlines()
hooks = [c.split()[0] for c in commits if c.split(" ", 1)[1].startswith("verif:")]
checks, na = [], []
for p in props:
    c = claims.get(p, {})
    if c.get("claimed"):
        checks.append({
            "property_id": p,
            "quick_cmd": f"./check {p} --tier quick",
            "thorough_cmd": f"./check {p} --tier thorough",
            "evidence_file": f"/verif/evidence/{p}.json",
            "replay_cmd_template": f"./check {p} --replay {{path}}",
            "engine": "govc",
            "level_claimed": {"category": c["category"], "text": c["text"], "design_ref": f"DESIGN.md §4 {p}"},
            "level_note": c["note"],
            "technique": c.get("technique", "contract-based deductive verification (VC generation over go/ssa + SMT)"),
        })
    else:
        na.append({"property_id": p, "reason": c.get("reason", "contracts designed (DESIGN §4) but not yet discharged; not claimed")})
m = {
    "version": 1,
    "setup_cmd": "./setup.sh",
    "hooks": {
        "guard": "verif",
        "enable": "-tags verif (contract files zz_contracts_verif.go are comment-only and are compiled only with the tag)",
        "baseline_off_cmd": "for m in $(cat /w/out/gomods.txt); do MF=$(cd /repo/$m && . /w/out/goenv.sh && gomodflag); (cd /repo/$m && go test $MF -json -vet=off -count=1 -timeout 25m ./...); done",
        "source_commits": list(reversed(hooks)),
        "add_only": True,
    },
    "engines": [{
        "name": "govc", "path": "cmd/govc", "serves_properties": [c["property_id"] for c in checks],
        "kind_free_text": "self-written deductive verifier: VC generation by symbolic execution of go/ssa (NaiveForm) of the real /repo packages against //@ contracts kept in /repo behind the build tag verif; loops cut with invariants, calls replaced by contracts; one SMT-LIB2 query per obligation raced on z3 4.8.12, z3 5.1.0 and cvc5 1.0"}],
    "checks": checks,
    "notes": "See DESIGN.md. Bounded stand-ins are labelled bounded in the evidence and never counted as discharged obligations.",
    "not_applicable": na,
}
json.dump(m, open(os.path.join(root, "MANIFEST.json"), "w"), indent=1)
print("checks:", [c["property_id"] for c in checks], "hooks:", len(hooks))
