#!/bin/bash
# usage: tools/runseed.sh <seed-name> <property> [tier]
# Applies a kept change to a scratch copy of /repo (outside /repo and /verif, removed afterwards), runs the
# registered check against that copy and prints its verdict. /repo itself is never touched.
name="$1"; prop="$2"; tier="${3:-quick}"
cd /verif
scratch=$(mktemp -d /tmp/seedrun-XXXXXX)
rsync -a --exclude .git /repo/ $scratch/
if ! (cd $scratch && patch -p1 -s --no-backup-if-mismatch < /verif/seeded/$name/patch.diff); then echo "patch does not apply to the current /repo tree"; rm -rf $scratch; exit 3; fi
out=$(mktemp /tmp/runseed-XXXXXX.out)
VERIF_REPO=$scratch VERIF_EVIDENCE_OUT=$scratch.evidence.json ./check $prop --tier $tier > $out 2>&1; rc=$?
rm -rf $scratch $scratch.evidence.json
grep -E "^(VIOLATION|UNDECIDED|KNOWN-FINDING|property=)" $out | cut -c1-300
rm -f $out
echo "exit=$rc"
