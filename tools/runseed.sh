#!/bin/bash
# usage: tools/runseed.sh <seed-name> <property> [tier]  -- applies a kept change to /repo, runs the check, undoes it
name="$1"; prop="$2"; tier="${3:-quick}"
cd /verif
if [ -n "$(git -C /repo status --porcelain)" ]; then echo "refusing: /repo has uncommitted changes (they would be lost by the undo step)"; exit 4; fi
git -C /repo apply /verif/seeded/$name/patch.diff || { echo "patch does not apply to /repo HEAD"; exit 3; }
VERIF_EVIDENCE_OUT=/tmp/runseed-evidence.json ./check $prop --tier $tier > /tmp/runseed.out 2>&1; rc=$?
git -C /repo checkout -- . 
grep -E "^(VIOLATION|UNDECIDED|KNOWN-FINDING|property=)" /tmp/runseed.out | cut -c1-300
echo "exit=$rc"
