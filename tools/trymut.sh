#!/bin/bash
# usage: tools/trymut.sh <patch.diff> <pkgs> [func filter]   -- verifies a scratch copy of /repo with the patch applied
set -e
rm -rf /tmp/mut && rsync -a --exclude .git /repo/ /tmp/mut/
(cd /tmp/mut && patch -p1 -s < "$1")
cd /verif && ./bin/govc verify -repo /tmp/mut -pkgs "$2" -func "${3:-}" -timeout 10 2>&1 | grep -v "^UNIT lemma\|^loaded" | cut -c1-220
rm -rf /tmp/mut
