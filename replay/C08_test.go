package asm

// Bounded stand-in for property C08 (go test -overlay): numbering of unnamed
// values against an independent transcription of LLVM's numbering rule.

import (
	"os/exec"
	"regexp"
	"fmt"
	"math/rand"
	"os"
	"strconv"
	"strings"
	"testing"

	"github.com/llir/llvm/ir"
	"github.com/llir/llvm/ir/constant"
	"github.com/llir/llvm/ir/types"
	"github.com/llir/llvm/ir/value"
)

// verifC08Func builds a function from a shape string: each rune is one element.
//
//	params:  P unnamed, p named
//	blocks:  B unnamed block, b named block (first element after params must be a block)
//	insts:   A unnamed add, a named add, S store, F fence, V void call, C unnamed non-void call, c named non-void call
//	terms:   R ret, J unconditional br to next block, I invoke void, N invoke non-void unnamed
func verifC08Func(m *ir.Module, name string, shape string, voidFn, intFn *ir.Func) (*ir.Func, []value.Named) {
	var params []*ir.Param
	i := 0
	for ; i < len(shape) && (shape[i] == 'P' || shape[i] == 'p'); i++ {
		n := ""
		if shape[i] == 'p' {
			n = fmt.Sprintf("p%d", i)
		}
		params = append(params, ir.NewParam(n, types.I32))
	}
	f := m.NewFunc(name, types.I32, params...)
	var order []value.Named // unnamed values in LLVM numbering order
	for k, p := range params {
		if shape[k] == 'P' {
			order = append(order, p)
		}
	}
	var cur *ir.Block
	var blocks []*ir.Block
	var pendingJ []*ir.Block
	slot := f.NewBlock("slot")
	_ = slot
	f.Blocks = f.Blocks[:0]
	ptr := constant.NewNull(types.NewPointer(types.I32))
	one := constant.NewInt(types.I32, 1)
	newBlock := func(named bool) {
		n := ""
		if named {
			n = fmt.Sprintf("b%d", len(blocks))
		}
		b := f.NewBlock(n)
		blocks = append(blocks, b)
		for _, pb := range pendingJ {
			pb.NewBr(b)
		}
		pendingJ = nil
		if cur != nil && cur.Term == nil {
			cur.NewBr(b)
		}
		cur = b
		if !named {
			order = append(order, b)
		}
	}
	for ; i < len(shape); i++ {
		c := shape[i]
		if cur == nil && c != 'B' && c != 'b' {
			newBlock(false)
		}
		if cur != nil && cur.Term != nil && c != 'B' && c != 'b' {
			newBlock(false)
		}
		switch c {
		case 'B':
			newBlock(false)
		case 'b':
			newBlock(true)
		case 'A':
			order = append(order, cur.NewAdd(one, one))
		case 'a':
			x := cur.NewAdd(one, one)
			x.SetName(fmt.Sprintf("a%d", i))
		case 'S':
			cur.NewStore(one, ptr)
		case 'F':
			cur.NewFence(5)
		case 'V':
			cur.NewCall(voidFn, one)
		case 'C':
			order = append(order, cur.NewCall(intFn, one))
		case 'c':
			x := cur.NewCall(intFn, one)
			x.SetName(fmt.Sprintf("c%d", i))
		case 'R':
			cur.NewRet(one)
		case 'J':
			pendingJ = append(pendingJ, cur)
			cur.Term = ir.NewUnreachable() // placeholder so that the next element opens a block
			pj := cur
			defer func() { _ = pj }()
		case 'I', 'N':
			// invoke needs two successor blocks; use fresh named blocks appended at the end
			ok := ir.NewBlock(fmt.Sprintf("ok%d", i))
			bad := ir.NewBlock(fmt.Sprintf("bad%d", i))
			ok.NewRet(one)
			bad.NewUnreachable()
			ok.Parent, bad.Parent = f, f
			if c == 'I' {
				cur.NewInvoke(voidFn, []value.Value{one}, ok, bad)
			} else {
				order = append(order, cur.NewInvoke(intFn, []value.Value{one}, ok, bad))
			}
			defer func(ok, bad *ir.Block) { f.Blocks = append(f.Blocks, ok, bad) }(ok, bad)
		}
	}
	for _, pb := range pendingJ {
		pb.Term = ir.NewRet(one)
	}
	for _, b := range blocks {
		if b.Term == nil {
			b.NewRet(one)
		}
		if _, isU := b.Term.(*ir.TermUnreachable); isU {
			// placeholder of 'J' that was followed by a block: replaced by br above via pendingJ
		}
	}
	return f, order
}

func TestVerifC08(t *testing.T) { verifC08(t, false) }

// TestVerifC08Constructed: the constructed-IR part only (shared with C03): numbering of constructed functions
// and modules against LLVM's rule; the texts the printer never emits belong to C08 alone.
func TestVerifC08Constructed(t *testing.T) { verifC08(t, true) }

func verifC08(t *testing.T, constructedOnly bool) {
	bound, _ := strconv.Atoi(os.Getenv("VERIF_BOUND"))
	if bound <= 0 {
		bound = 600
	}
	seed, _ := strconv.ParseInt(os.Getenv("VERIF_SEED"), 10, 64)
	r := rand.New(rand.NewSource(seed + 11))
	cases, fails := 0, 0
	fail := func(f string, a ...interface{}) {
		fails++
		if fails <= 25 {
			fmt.Printf("REPLAY-FAIL %s\n", fmt.Sprintf(f, a...))
		}
	}
	alphabet := "AaSFVCcRBb"
	for h := 0; h < bound; h++ {
		// shape: 0..3 params, then 1..10 body elements; terminators 'I'/'N' only at the very end
		var sb strings.Builder
		for k := r.Intn(4); k > 0; k-- {
			sb.WriteByte("Pp"[r.Intn(2)])
		}
		sb.WriteByte("Bb"[r.Intn(2)])
		for k := 1 + r.Intn(10); k > 0; k-- {
			sb.WriteByte(alphabet[r.Intn(len(alphabet))])
		}
		if r.Intn(5) == 0 {
			sb.WriteByte("IN"[r.Intn(2)])
		}
		shape := sb.String()
		cases++
		func() {
			defer func() {
				if e := recover(); e != nil {
					fail("shape %s: panic: %v", shape, strings.Split(fmt.Sprint(e), "\n")[0])
				}
			}()
			m := ir.NewModule()
			voidFn := m.NewFunc("v", types.Void, ir.NewParam("", types.I32))
			intFn := m.NewFunc("i", types.I32, ir.NewParam("", types.I32))
			f, order := verifC08Func(m, "f", shape, voidFn, intFn)
			text := m.String()
			for k, v := range order {
				if got, want := v.Ident(), fmt.Sprintf("%%%d", k); got != want {
					if _, isBlock := v.(*ir.Block); isBlock {
						got = v.(*ir.Block).LocalIdent.Ident()
					}
					if got != want {
						fail("shape %s: unnamed value #%d is numbered %s, LLVM numbers it %s", shape, k, got, want)
						return
					}
				}
			}
			// LLVM itself accepts the numbered text (when llvm-as is installed)
			if msg := verifLLVMAs(text); msg != "" {
				fail("shape %s: llvm-as rejects the printed function: %s", shape, msg)
				return
			}
			// numbering again changes nothing
			if err := f.AssignIDs(); err != nil {
				fail("shape %s: renumbering a numbered function fails: %v", shape, err)
			}
			if text2 := m.String(); text2 != text {
				fail("shape %s: printing again changes the text", shape)
			}
			// the numbering LLVM accepts is accepted by the parser, each %%N bound to the right value
			m2, err := ParseString("c08.ll", text)
			if err != nil {
				fail("shape %s: printed (LLVM-numbered) text is rejected by the parser: %v", shape, err)
				return
			}
			if text3 := m2.String(); text3 != text {
				fail("shape %s: parse and print of the numbered text changes it", shape)
			}
			if h == 5 {
				fmt.Printf("REPLAY-SAMPLE shape %s: %d unnamed values numbered\n", shape, len(order))
			}
		}()
	}
	// module level: unnamed globals, aliases, ifuncs and functions of constructed modules must be numbered in
	// the order in which the printer emits their definitions (LLVM numbers @N textually)
	defRe := regexp.MustCompile(`(?m)^(?:@([0-9]+) = |(?:define|declare) [^@\n]*@([0-9]+)\()`)
	for h := 0; h < 80; h++ {
		cases++
		func() {
			defer func() {
				if e := recover(); e != nil {
					fail("module shape #%d: panic: %v", h, strings.Split(fmt.Sprint(e), "\n")[0])
				}
			}()
			m := ir.NewModule()
			nm := func(p string, k int) string {
				if r.Intn(3) == 0 {
					return fmt.Sprintf("%s%d", p, k)
				}
				return ""
			}
			var gs []*ir.Global
			for k := 1 + r.Intn(3); k > 0; k-- {
				gs = append(gs, m.NewGlobalDef(nm("g", k), constant.NewInt(types.I32, int64(k))))
			}
			var fs []*ir.Func
			for k := 1 + r.Intn(3); k > 0; k-- {
				f := m.NewFunc(nm("f", k), types.Void)
				f.NewBlock("").NewRet(nil)
				fs = append(fs, f)
			}
			for k := r.Intn(3); k > 0; k-- {
				m.NewAlias(nm("a", k), gs[r.Intn(len(gs))])
			}
			// a global declaration, and aliases whose aliasee is a constant expression (with and without leading type)
			if r.Intn(2) == 0 {
				m.NewGlobal(nm("d", 1), types.I32)
			}
			if r.Intn(2) == 0 {
				m.NewAlias(nm("s", 1), constant.NewSelect(constant.True, gs[0], gs[len(gs)-1]))
				m.NewAlias(nm("b", 1), constant.NewBitCast(gs[0], types.NewPointer(types.I32)))
			}
			// the resolver of an ifunc returns a pointer to the function a call resolves to
			var resolvers []*ir.Func
			for k := r.Intn(3); k > 0; k-- {
				target := fs[r.Intn(len(fs))]
				rs := m.NewFunc(nm("r", k), types.NewPointer(target.Sig))
				rs.NewBlock("").NewRet(target)
				resolvers = append(resolvers, rs)
			}
			for k, rs := range resolvers {
				m.NewIFunc(nm("i", k), rs)
			}
			text := m.String()
			// LLVM itself accepts the printed module (when llvm-as is installed)
			if msg := verifLLVMAs(text); msg != "" {
				fail("module shape #%d: llvm-as rejects the printed module: %s\n%s", h, msg, text)
				return
			}
			next := 0
			for _, mm := range defRe.FindAllStringSubmatch(text, -1) {
				num := mm[1] + mm[2]
				if num != strconv.Itoa(next) {
					fail("module shape #%d: the %d-th unnamed global entity in printed order is numbered @%s, LLVM numbers it @%d:\n%s", h, next, num, next, text)
					return
				}
				next++
			}
			if _, err := ParseString("c08m.ll", text); err != nil {
				fail("module shape #%d: printed module rejected by the parser: %v", h, err)
			}
		}()
	}
	// type definitions made through Module.NewTypeDef, struct and non-struct kinds in every order of four kinds: the
	// module lists exactly the types that were given, each once, and prints one definition per name
	{
		mk := []func() types.Type{
			func() types.Type { return types.NewStruct(types.I32) },
			func() types.Type { return types.NewInt(32) },
			func() types.Type { return types.NewStruct(types.I8, types.I8) },
			func() types.Type { return types.NewPointer(types.I8) },
			func() types.Type { return types.NewArray(2, types.I16) },
		}
		for code := 0; code < 5*5*5*5; code++ {
			cases++
			m := ir.NewModule()
			var given []types.Type
			c := code
			for k := 0; k < 4; k++ {
				t := mk[c%5]()
				c /= 5
				given = append(given, m.NewTypeDef(fmt.Sprintf("t%d", k), t))
			}
			okList := len(m.TypeDefs) == len(given)
			for k := range given {
				if okList && m.TypeDefs[k] != given[k] {
					okList = false
				}
			}
			text := m.String()
			for k := range given {
				if n := strings.Count(text, fmt.Sprintf("%%t%d = type ", k)); n != 1 {
					okList = false
				}
			}
			if !okList {
				fail("type definitions (kinds code %d): the module does not list the four given types once each, in the order given:\n%s", code, text)
				break
			}
		}
	}
	if constructedOnly {
		fmt.Printf("REPLAY-CASES %d\n", cases)
		if fails > 0 {
			t.Fatalf("%d failures", fails)
		}
		return
	}
	// hand-written texts: spellings the printer never emits
	texts := []struct{ name, src string }{
		{"void call with full non-variadic signature", "declare void @v(i32)\ndefine i32 @f(i32 %0) {\n\tcall void (i32) @v(i32 %0)\n\t%2 = add i32 %0, 1\n\tret i32 %2\n}\n"},
		{"void invoke with full signature", "declare void @v(i32)\ndeclare i32 @pers(...)\ndefine i32 @f(i32 %0) personality i32 (...)* @pers {\n\tinvoke void (i32) @v(i32 %0) to label %2 unwind label %3\n2:\n\tret i32 0\n3:\n\t%4 = landingpad { i8*, i32 } cleanup\n\tret i32 1\n}\n"},
		{"explicit entry label %1 after one unnamed param", "define i32 @f(i32 %0) {\n1:\n\t%2 = add i32 %0, 1\n\tret i32 %2\n}\n"},
		{"unnamed globals in textual order", "@0 = global i32 1\n@1 = global i32 2\n@x = global i32* @1\n"},
		{"forward reference to an unnamed value", "define i32 @f(i1 %0) {\n\tbr i1 %0, label %2, label %4\n2:\n\t%3 = add i32 1, 2\n\tbr label %4\n4:\n\t%5 = phi i32 [ %3, %2 ], [ 0, %1 ]\n\tret i32 %5\n}\n"},
	}
	for _, tc := range texts {
		cases++
		func() {
			defer func() {
				if e := recover(); e != nil {
					fail("text %q: panic: %v", tc.name, strings.Split(fmt.Sprint(e), "\n")[0])
				}
			}()
			m, err := ParseString("c08t.ll", tc.src)
			if err != nil {
				fail("text %q: correctly numbered input rejected: %v", tc.name, err)
				return
			}
			out := m.String()
			if _, err := ParseString("c08t2.ll", out); err != nil {
				fail("text %q: printed module does not re-parse: %v", tc.name, err)
			}
		}()
	}
	// known finding canary: unnamed function before unnamed global
	cases++
	func() {
		defer func() {
			if e := recover(); e != nil {
				fail("text \"unnamed globals interleaved with unnamed functions\": printing a module the parser produced panics: %v", strings.Split(fmt.Sprint(e), "\n")[0])
			}
		}()
		m, err := ParseString("c08k.ll", "define void @0() {\n\tret void\n}\n@1 = global i32 0\n")
		if err == nil {
			_ = m.String()
		}
	}()
	fmt.Printf("REPLAY-CASES %d\n", cases)
	if fails > 0 {
		t.Fatalf("%d failures", fails)
	}
}


// verifLLVMAs runs LLVM's own assembler on the text (oracle for "valid assembly"); "" when it accepts the
// module or when no llvm-as is installed.
func verifLLVMAs(text string) string {
	bin := ""
	for _, c := range []string{"llvm-as-14", "llvm-as"} {
		if p, err := exec.LookPath(c); err == nil {
			bin = p
			break
		}
	}
	if bin == "" {
		return ""
	}
	cmd := exec.Command(bin, "-disable-verify", "-o", os.DevNull, "-") // syntax, types and numbering (the shapes are not meant to pass the IR verifier)
	cmd.Stdin = strings.NewReader(text)
	out, err := cmd.CombinedOutput()
	if err != nil {
		return strings.TrimSpace(strings.Split(string(out), "\n")[0])
	}
	return ""
}
