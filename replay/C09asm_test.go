package asm

// Witness-search harness for property C09 through the parser (go test -overlay): every
// accepted spelling of an integer literal inside a module denotes the mathematically
// correct value for the written width.

import (
	"fmt"
	"math/big"
	"os"
	"strconv"
	"testing"

	"github.com/llir/llvm/ir/constant"
)

func TestVerifC09Asm(t *testing.T) {
	bound, _ := strconv.Atoi(os.Getenv("VERIF_BOUND"))
	if bound <= 0 {
		bound = 8
	}
	cases, fails := 0, 0
	fail := func(f string, a ...interface{}) {
		fails++
		if fails <= 20 {
			fmt.Printf("REPLAY-FAIL %s\n", fmt.Sprintf(f, a...))
		}
	}
	parse := func(w int, lit string) (v *big.Int, err error) {
		defer func() {
			if e := recover(); e != nil {
				err = fmt.Errorf("panic: %v", e)
			}
		}()
		m, err := ParseString("x.ll", fmt.Sprintf("@g = global i%d %s\n", w, lit))
		if err != nil {
			return nil, err
		}
		c, ok := m.Globals[0].Init.(*constant.Int)
		if !ok {
			return nil, fmt.Errorf("initializer is %T", m.Globals[0].Init)
		}
		return c.X, nil
	}
	check := func(w int, lit string, want *big.Int) {
		cases++
		got, err := parse(w, lit)
		if err != nil {
			fail("parse `i%d %s`: %v", w, lit, err)
			return
		}
		if got.Cmp(want) != 0 {
			fail("parse `i%d %s`: value %v, want %v", w, lit, got, want)
		}
	}
	for _, w := range []int{8, 16, 32, 64, 65, 128} {
		for v := int64(-300); v <= 300; v++ {
			if w == 8 && (v < -128 || v > 255) {
				continue
			}
			x := big.NewInt(v)
			check(w, x.String(), x)
			// leading zeros are decimal, not octal
			if v >= 0 {
				check(w, "0"+x.String(), x)
				check(w, "00"+x.String(), x)
				check(w, fmt.Sprintf("u0x%X", v), x)
			} else {
				check(w, "-0"+new(big.Int).Neg(x).String(), x)
			}
		}
		for i := 0; i < bound*8; i++ {
			// boundary values of the width
			p := new(big.Int).Lsh(big.NewInt(1), uint(w-1))
			for _, x := range []*big.Int{new(big.Int).Sub(p, big.NewInt(int64(i+1))), new(big.Int).Neg(new(big.Int).Sub(p, big.NewInt(int64(i))))} {
				check(w, x.String(), x)
				if x.Sign() >= 0 {
					check(w, "0"+x.String(), x)
				}
			}
		}
	}
	check(1, "true", big.NewInt(1))
	check(1, "false", big.NewInt(0))
	fmt.Printf("REPLAY-CASES %d\n", cases)
	if fails > 0 {
		t.Fatalf("%d failures", fails)
	}
}
