package asm

// Bounded stand-in / witness search for property C20 at module level (go test -overlay):
// the printed module does not depend on the order in which type definitions, comdats,
// attribute groups, metadata definitions and named metadata appear in the input, and
// globals / functions keep their textual order.

import (
	"regexp"
	"fmt"
	"os"
	"strconv"
	"strings"
	"testing"

	"github.com/llir/llvm/internal/natsort"
	"github.com/llir/llvm/ir"
	"github.com/llir/llvm/ir/metadata"
)

// uniqueIDs: the distinct #N tokens of a module text
func uniqueIDs(src string) []string {
	seen := map[string]bool{}
	var out []string
	for _, t := range regexp.MustCompile(`#[0-9]+`).FindAllString(src, -1) {
		if !seen[t] {
			seen[t] = true
			out = append(out, t)
		}
	}
	return out
}

func permutations(n int) [][]int {
	if n == 0 {
		return [][]int{{}}
	}
	var out [][]int
	for _, p := range permutations(n - 1) {
		for i := 0; i <= len(p); i++ {
			q := append(append(append([]int{}, p[:i]...), n-1), p[i:]...)
			out = append(out, q)
		}
	}
	return out
}

func TestVerifC20Asm(t *testing.T) {
	bound, _ := strconv.Atoi(os.Getenv("VERIF_BOUND"))
	if bound <= 0 {
		bound = 4
	}
	if bound > 5 {
		bound = 5
	}
	cases, fails := 0, 0
	fail := func(f string, a ...interface{}) {
		fails++
		if fails <= 20 {
			fmt.Printf("REPLAY-FAIL %s\n", fmt.Sprintf(f, a...))
		}
	}
	print := func(src string) (s string, err error) {
		defer func() {
			if e := recover(); e != nil {
				err = fmt.Errorf("panic: %v", e)
			}
		}()
		m, err := ParseString("x.ll", src)
		if err != nil {
			return "", err
		}
		return m.String(), nil
	}
	families := map[string][]string{
		"type definitions":     {"%t10 = type { i32 }", "%t2 = type { i64 }", "%a = type { i8 }", "%t1 = type { i16 }", "%b.7 = type { i1 }"},
		"comdat definitions":   {"$c10 = comdat any", "$c2 = comdat any", "$a = comdat largest", "$c1 = comdat any", "$b = comdat any"},
		"attribute groups":     {"attributes #3 = { nounwind }", "attributes #0 = { noinline }", "attributes #12 = { readnone }", "attributes #1 = { cold }", "attributes #7 = { noreturn }"},
		"metadata definitions": {"!3 = !{i32 3}", "!0 = !{i32 0}", "!12 = !{i32 12}", "!1 = !{i32 1}", "!7 = !{i32 7}"},
		"named metadata":       {"!n10 = !{}", "!n2 = !{}", "!a = !{}", "!n1 = !{}", "!b = !{}"},
	}
	var names []string
	for k := range families {
		names = append(names, k)
	}
	for _, fam := range names {
		defs := families[fam][:bound]
		var ref string
		for pi, p := range permutations(len(defs)) {
			var lines []string
			for _, i := range p {
				lines = append(lines, defs[i])
			}
			src := strings.Join(lines, "\n") + "\n"
			cases++
			out, err := print(src)
			if err != nil {
				fail("%s in order %v: %v", fam, p, err)
				break
			}
			if pi == 0 {
				ref = out
				// numbered definitions are listed in ascending order of their IDs
				if fam == "metadata definitions" || fam == "attribute groups" {
					re := regexp.MustCompile(`(?m)^(?:!|attributes #)([0-9]+) = `)
					prev := -1
					for _, mm := range re.FindAllStringSubmatch(out, -1) {
						id, _ := strconv.Atoi(mm[1])
						if id <= prev {
							fail("%s: not printed in ascending order of their IDs (%d after %d):\n%s", fam, id, prev, out)
							break
						}
						prev = id
					}
				}
				continue
			}
			if out != ref {
				fail("%s: printed module depends on the input order: order %v prints\n%s\nbut order %v prints\n%s", fam, p, out, permutations(len(defs))[0], ref)
				break
			}
		}
	}
	// attribute groups that are used but not defined (materialised as empty groups) are listed in ascending order of
	// their IDs too, whatever the order of their uses, and between the defined ones
	for _, src := range []string{
		"declare void @f() #3 #1\n",
		"declare void @f() #9 #2\ndeclare void @g() #5 #0\nattributes #4 = { nounwind }\nattributes #7 = { cold }\n",
		"define void @f() #6 {\n  call void @g() #8\n  call void @g() #1\n  ret void\n}\ndeclare void @g() #3\nattributes #3 = { cold }\n",
	} {
		cases++
		func() {
			defer func() {
				if e := recover(); e != nil {
					fail("undefined attribute groups: panic %v on\n%s", e, src)
				}
			}()
			m, err := ParseString("t.ll", src)
			if err != nil {
				fail("undefined attribute groups: %v on\n%s", err, src)
				return
			}
			out := m.String()
			re := regexp.MustCompile(`(?m)^attributes #([0-9]+) = `)
			prev := -1
			n := 0
			for _, mm := range re.FindAllStringSubmatch(out, -1) {
				id, _ := strconv.Atoi(mm[1])
				n++
				if id <= prev {
					fail("attribute groups materialised for undefined IDs: not printed in ascending order of their IDs (%d after %d):\n%s", id, prev, out)
					break
				}
				prev = id
			}
			if want := len(regexp.MustCompile(`#[0-9]+`).FindAllString(strings.Join(uniqueIDs(src), " "), -1)); n != want {
				fail("attribute groups: %d groups listed, %d distinct IDs written in\n%s\nprinted:\n%s", n, want, src, out)
			}
		}()
	}
	// the order of the printed definitions does not depend on whether the module was printed before
	{
		cases++
		func() {
			defer func() {
				if e := recover(); e != nil {
					fail("print twice: panic %v", e)
				}
			}()
			m, err := ParseString("t.ll", "!0 = !{}\n!1 = !{!0}\n!5 = !{!1}\n")
			if err != nil {
				fail("print twice: %v", err)
				return
			}
			m.MetadataDefs = append(m.MetadataDefs, &metadata.Tuple{MetadataID: -1}, &metadata.Tuple{MetadataID: -1})
			first := m.String()
			if second := m.String(); second != first {
				fail("a parsed module with two appended, not yet numbered metadata definitions prints differently the second time:\n%s\n---\n%s", first, second)
			}
		}()
	}
	// named metadata, type definitions and comdats are listed in the natural order of their NAMES (not of
	// their printed, escaped spelling): build modules, print, and compare the order of the definitions
	{
		nameSets := [][]string{
			{"a b", "a-b", "a#b", "ab"},
			{"007", "10", "9", "02", "3"},
			{"x10", "x9", "x010", "x 1"},
			{"llvm.ident", "llvm.module.flags", "foo.10", "foo.2"},
		}
		for _, names := range nameSets {
			m := ir.NewModule()
			for i := len(names) - 1; i >= 0; i-- {
				m.NamedMetadataDefs[names[i]] = &metadata.NamedDef{Name: names[i]}
			}
			cases++
			out := m.String()
			sorted := append([]string{}, names...)
			natsort.Strings(sorted)
			pos := -1
			for _, n := range sorted {
				needle := (&metadata.NamedDef{Name: n}).Ident() + " = "
				at := strings.Index(out, needle)
				if at < 0 {
					fail("named metadata %q not printed (looked for %q) in\n%s", n, needle, out)
					break
				}
				if at < pos {
					fail("named metadata not in the natural order of their names %q:\n%s", sorted, out)
					break
				}
				pos = at
			}
		}
	}
	// globals and functions keep textual order
	{
		src := "@z = global i32 0\n@a = global i32 1\ndeclare void @y()\ndeclare void @b()\n@m = alias i32, i32* @z\n"
		cases++
		out, err := print(src)
		if err != nil {
			fail("textual order: %v", err)
		} else {
			iz, ia, iy, ib := strings.Index(out, "@z ="), strings.Index(out, "@a ="), strings.Index(out, "@y()"), strings.Index(out, "@b()")
			if !(iz >= 0 && iz < ia && iy >= 0 && iy < ib) {
				fail("globals/functions not in textual order:\n%s", out)
			}
		}
	}
	fmt.Printf("REPLAY-CASES %d\n", cases)
	if fails > 0 {
		t.Fatalf("%d failures", fails)
	}
}
