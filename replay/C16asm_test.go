package asm

// Bounded harness for the last clause of property C16 (go test -overlay): type equality is preserved by
// printing a type and parsing it back. A universe of types of nesting depth <= bound is printed inside a
// module (as the only field of an identified struct), parsed, and compared with the original by Equal
// and by an independent structural comparison; two printed types that are different must stay different.

import (
	"fmt"
	"os"
	"strconv"
	"testing"

	"github.com/llir/llvm/ir"
	"github.com/llir/llvm/ir/types"
)

func verifC16Same(a, b types.Type) bool {
	switch a := a.(type) {
	case *types.IntType:
		b, ok := b.(*types.IntType)
		return ok && a.BitSize == b.BitSize
	case *types.FloatType:
		b, ok := b.(*types.FloatType)
		return ok && a.Kind == b.Kind
	case *types.PointerType:
		b, ok := b.(*types.PointerType)
		return ok && a.AddrSpace == b.AddrSpace && verifC16Same(a.ElemType, b.ElemType)
	case *types.VectorType:
		b, ok := b.(*types.VectorType)
		return ok && a.Len == b.Len && a.Scalable == b.Scalable && verifC16Same(a.ElemType, b.ElemType)
	case *types.ArrayType:
		b, ok := b.(*types.ArrayType)
		return ok && a.Len == b.Len && verifC16Same(a.ElemType, b.ElemType)
	case *types.StructType:
		b, ok := b.(*types.StructType)
		if !ok || a.Packed != b.Packed || len(a.Fields) != len(b.Fields) {
			return false
		}
		for i := range a.Fields {
			if !verifC16Same(a.Fields[i], b.Fields[i]) {
				return false
			}
		}
		return true
	case *types.FuncType:
		b, ok := b.(*types.FuncType)
		if !ok || a.Variadic != b.Variadic || len(a.Params) != len(b.Params) || !verifC16Same(a.RetType, b.RetType) {
			return false
		}
		for i := range a.Params {
			if !verifC16Same(a.Params[i], b.Params[i]) {
				return false
			}
		}
		return true
	case *types.VoidType:
		_, ok := b.(*types.VoidType)
		return ok
	case *types.LabelType:
		_, ok := b.(*types.LabelType)
		return ok
	case *types.MetadataType:
		_, ok := b.(*types.MetadataType)
		return ok
	case *types.TokenType:
		_, ok := b.(*types.TokenType)
		return ok
	case *types.MMXType:
		_, ok := b.(*types.MMXType)
		return ok
	}
	return false
}

func TestVerifC16Asm(t *testing.T) {
	bound, _ := strconv.Atoi(os.Getenv("VERIF_BOUND"))
	if bound <= 0 {
		bound = 2
	}
	cases, fails := 0, 0
	fail := func(f string, a ...interface{}) {
		fails++
		if fails <= 20 {
			fmt.Printf("REPLAY-FAIL %s\n", fmt.Sprintf(f, a...))
		}
	}
	leaves := []types.Type{types.I1, types.I8, types.I64, types.NewInt(17), types.Float, types.Double, types.X86_FP80}
	level := leaves
	universe := append([]types.Type{}, leaves...)
	fn := func(ret types.Type, variadic bool, ps ...types.Type) types.Type {
		f := types.NewFunc(ret, ps...)
		f.Variadic = variadic
		return f
	}
	for d := 1; d <= bound; d++ {
		var next []types.Type
		for i, e := range level {
			p1 := types.NewPointer(e)
			p2 := types.NewPointer(e)
			p2.AddrSpace = 3
			v := types.NewVector(uint64(2+i%3), e)
			sv := types.NewVector(uint64(2+i%3), e)
			sv.Scalable = true
			ps := types.NewStruct(e, types.I8)
			ps.Packed = true
			next = append(next, p1, p2, types.NewArray(uint64(i%4), e), types.NewStruct(e), types.NewStruct(e, types.I8), ps,
				types.NewPointer(fn(e, false)), types.NewPointer(fn(e, true)), types.NewPointer(fn(types.Void, true)), types.NewPointer(fn(types.Void, false)),
				types.NewPointer(fn(types.Void, true, e)), types.NewPointer(fn(e, false, e, types.I32)))
			if _, isAgg := e.(*types.StructType); !isAgg {
				if _, isArr := e.(*types.ArrayType); !isArr {
					if _, isVec := e.(*types.VectorType); !isVec {
						next = append(next, v, sv)
					}
				}
			}
		}
		if len(next) > 400 {
			// keep every third type of the deeper level
			var thin []types.Type
			for i, x := range next {
				if i%3 == 0 {
					thin = append(thin, x)
				}
			}
			next = thin
		}
		universe = append(universe, next...)
		level = next
	}
	parsed := make([]types.Type, len(universe))
	for i, ty := range universe {
		cases++
		func() {
			defer func() {
				if e := recover(); e != nil {
					fail("type %s: panic %v", ty, e)
				}
			}()
			src := fmt.Sprintf("%%verif_t = type { %s }\n", ty.String())
			m, err := ParseString("t.ll", src)
			if err != nil {
				fail("type %s: the printed type does not parse: %v", ty, err)
				return
			}
			st, ok := m.TypeDefs[0].(*types.StructType)
			if !ok || len(st.Fields) != 1 {
				fail("type %s: unexpected type definition %v", ty, m.TypeDefs[0])
				return
			}
			back := st.Fields[0]
			parsed[i] = back
			if !verifC16Same(ty, back) {
				fail("type %s is parsed back as %s: not the same type structurally", ty, back)
			}
			if !ty.Equal(back) || !back.Equal(ty) {
				fail("type %s is parsed back as %s: Equal says they differ", ty, back)
			}
		}()
	}
	// distinct types stay distinct (sampled pairs)
	for i := 0; i < len(universe); i++ {
		for j := i + 1; j < len(universe); j += 1 + len(universe)/60 {
			if parsed[i] == nil || parsed[j] == nil {
				continue
			}
			cases++
			if verifC16Same(universe[i], universe[j]) != parsed[i].Equal(parsed[j]) {
				fail("types %s and %s: same=%v before printing, Equal=%v after parsing them back", universe[i], universe[j], verifC16Same(universe[i], universe[j]), parsed[i].Equal(parsed[j]))
			}
		}
	}
	// identified structs are identified by name: distinct names stay distinct through print and parse, and
	// pointers to them compare as the names do
	{
		cases++
		names := []string{"foo", "%foo", "a b", "x.1", "007", "-1", "\"q\""}
		m := ir.NewModule()
		var sts []types.Type
		for i, n := range names {
			sts = append(sts, m.NewTypeDef(n, types.NewStruct(types.NewInt(uint64(8+i)))))
		}
		func() {
			defer func() {
				if e := recover(); e != nil {
					fail("named structs: panic %v", e)
				}
			}()
			text := m.String()
			m2, err := ParseString("n.ll", text)
			if err != nil {
				fail("named structs %q: the printed module does not parse: %v\n%s", names, err, text)
				return
			}
			got := map[string]types.Type{}
			for _, td := range m2.TypeDefs {
				got[td.Name()] = td
			}
			for i, n := range names {
				back, ok := got[n]
				if !ok {
					fail("named struct %q is not read back under its name (printed module:\n%s)", n, text)
					continue
				}
				if !sts[i].Equal(back) || !types.NewPointer(sts[i]).Equal(types.NewPointer(back)) {
					fail("named struct %q: Equal(t, parse(print(t))) is false", n)
				}
				for j := range names {
					if i != j && types.NewPointer(sts[i]).Equal(types.NewPointer(sts[j])) {
						fail("pointers to the distinct named structs %q and %q compare equal", n, names[j])
					}
				}
			}
		}()
	}
	fmt.Printf("REPLAY-SAMPLE %d types, e.g. %s\n", len(universe), universe[len(universe)/2])
	fmt.Printf("REPLAY-CASES %d\n", cases)
	if fails > 0 {
		t.Fatalf("%d failures", fails)
	}
}
