package asm

// Bounded stand-in / witness search for property C07 (go test -overlay):
// getelementptr result types computed by the parser (instruction and constant
// expression), by ir.NewGetElementPtr and by constant.NewGetElementPtr from
// the same operands, against an independent transcription of LLVM's rule.

import (
	"fmt"
	"strings"
	"testing"

	"github.com/llir/llvm/ir"
	"github.com/llir/llvm/ir/constant"
	"github.com/llir/llvm/ir/types"
	"github.com/llir/llvm/ir/value"
)

type verifC07Idx struct {
	text   string // "i32 1"
	vecLen int    // 0 scalar
	scal   bool
	val    int  // constant value if known (for struct steps)
	known  bool // usable to step into a struct
	constE bool // valid inside a constant expression
}

// one step of source element types: text, and what indexing with value v yields
type verifC07Elem struct {
	text string
	step func(v int) (string, bool) // element type text after one index; ok=false if not indexable
	isStruct bool
}

func verifC07Elems() []verifC07Elem {
	return []verifC07Elem{
		{"i32", func(int) (string, bool) { return "", false }, false},
		{"[4 x i32]", func(int) (string, bool) { return "i32", true }, false},
		{"[2 x [3 x i8]]", func(int) (string, bool) { return "[3 x i8]", true }, false},
		{"{ i32, [2 x i8], float }", func(v int) (string, bool) {
			return []string{"i32", "[2 x i8]", "float"}[v%3], true
		}, true},
		{"<{ i8, i64 }>", func(v int) (string, bool) { return []string{"i8", "i64"}[v%2], true }, true},
		{"%named", func(v int) (string, bool) { return []string{"i32", "%named*"}[v%2], true }, true},
		{"<4 x i32>", func(int) (string, bool) { return "i32", true }, false},
	}
}

func verifC07Indices() []verifC07Idx {
	return []verifC07Idx{
		{"i32 0", 0, false, 0, true, true},
		{"i32 1", 0, false, 1, true, true},
		{"i64 1", 0, false, 1, true, true},
		{"i8 1", 0, false, 1, true, true},
		{"i1 true", 0, false, 1, false, true},
		{"i32 undef", 0, false, 0, false, true},
		{"i32 poison", 0, false, 0, false, true},
		{"i64 add (i64 1, i64 0)", 0, false, 1, false, true},
		{"i64 %n", 0, false, 0, false, false},
		{"<2 x i32> <i32 1, i32 1>", 2, false, 1, true, true},
		{"<2 x i64> <i64 0, i64 1>", 2, false, 0, false, true},
		{"<2 x i64> zeroinitializer", 2, false, 0, true, true},
		{"<2 x i32> undef", 2, false, 0, false, true},
		{"<2 x i32> poison", 2, false, 0, false, true},
		{"<2 x i64> <i64 undef, i64 0>", 2, false, 0, false, true},
		{"<2 x i64> %vn", 2, false, 0, false, false},
		{"<vscale x 2 x i64> zeroinitializer", 2, true, 0, true, true},
		{"<vscale x 2 x i64> %svn", 2, true, 0, false, false},
	}
}

type verifC07Case struct {
	elem, base string // base operand text incl. type, e.g. "[4 x i32]* %p"
	idx        []verifC07Idx
	want       string
	constOK    bool
}

func verifC07Cases() []verifC07Case {
	var out []verifC07Case
	idxs := verifC07Indices()
	for _, e := range verifC07Elems() {
		for _, as := range []string{"", " addrspace(3)"} {
			for _, bv := range []struct {
				vlen int
				scal bool
			}{{0, false}, {2, false}, {2, true}} {
				for _, i0 := range idxs {
					// one index (steps through the pointer only) and two indices
					lists := [][]verifC07Idx{{i0}}
					if _, ok := e.step(0); ok {
						for _, i1 := range idxs {
							lists = append(lists, []verifC07Idx{i0, i1})
						}
					}
					for _, l := range lists {
						cur := e.text
						ok := true
						vlen, scal := bv.vlen, bv.scal
						constOK := bv.vlen == 0
						for k, ix := range l {
							if ix.vecLen != 0 {
								if vlen != 0 && (vlen != ix.vecLen || scal != ix.scal) {
									ok = false
								}
								vlen, scal = ix.vecLen, ix.scal
							}
							if !ix.constE {
								constOK = false
							}
							if k == 0 {
								continue
							}
							var el verifC07Elem
							for _, c := range verifC07Elems() {
								if c.text == cur {
									el = c
								}
							}
							if el.isStruct && !ix.known {
								ok = false
								break
							}
							if el.isStruct && strings.HasPrefix(ix.text, "i") && !strings.HasPrefix(ix.text, "i32 ") {
								ok = false // struct indices must be i32
								break
							}
							nx, can := el.step(ix.val)
							if !can {
								ok = false
								break
							}
							cur = nx
						}
						if !ok {
							continue
						}
						want := cur + as + "*"
						if vlen != 0 {
							if scal {
								want = fmt.Sprintf("<vscale x %d x %s>", vlen, want)
							} else {
								want = fmt.Sprintf("<%d x %s>", vlen, want)
							}
						}
						base := e.text + as + "* %p"
						if bv.vlen != 0 {
							if bv.scal {
								base = fmt.Sprintf("<vscale x %d x %s%s*> %%p", bv.vlen, e.text, as)
							} else {
								base = fmt.Sprintf("<%d x %s%s*> %%p", bv.vlen, e.text, as)
							}
						}
						out = append(out, verifC07Case{e.text, base, l, want, constOK})
					}
				}
			}
		}
	}
	return out
}

func TestVerifC07(t *testing.T) { verifC07(t, true) }

// TestVerifC07Rule: the four-way comparison against LLVM's rule only (shared with C03); the parser-specific
// cases (struct index written as a constant expression) belong to C07 alone.
func TestVerifC07Rule(t *testing.T) { verifC07(t, false) }

func verifC07(t *testing.T, parserCases bool) {
	cases, fails := 0, 0
	kinds := map[string]int{}
	fail := func(kind, f string, a ...interface{}) {
		fails++
		kinds[kind]++
		if kinds[kind] <= 6 {
			fmt.Printf("REPLAY-FAIL %s: %s\n", kind, fmt.Sprintf(f, a...))
		}
	}
	for ci, c := range verifC07Cases() {
		var its []string
		for _, ix := range c.idx {
			its = append(its, ix.text)
		}
		gepText := fmt.Sprintf("getelementptr %s, %s, %s", c.elem, c.base, strings.Join(its, ", "))
		params := strings.SplitN(c.base, " %p", 2)[0] + " %p, i64 %n, <2 x i64> %vn, <vscale x 2 x i64> %svn"
		src := fmt.Sprintf("%%named = type { i32, %%named* }\ndefine void @f(%s) {\n\t%%r = %s\n\tret void\n}\n", params, gepText)
		cases++
		func() {
			var m *ir.Module
			var err error
			func() {
				defer func() {
					if e := recover(); e != nil {
						err = fmt.Errorf("panic: %v", e)
					}
				}()
				m, err = ParseString("c07.ll", src)
			}()
			if err != nil {
				fail("parser-inst", "`%s`: %v", gepText, err)
				return
			}
			inst := m.Funcs[0].Blocks[0].Insts[0].(*ir.InstGetElementPtr)
			if got := inst.Typ.String(); got != c.want {
				fail("parser-inst", "`%s`: parser type %s, LLVM rule gives %s", gepText, got, c.want)
			}
			func() {
				defer func() {
					if e := recover(); e != nil {
						fail("ir-constructor", "`%s`: panic: %v", gepText, e)
					}
				}()
				n := ir.NewGetElementPtr(inst.ElemType, inst.Src, inst.Indices...)
				if got := n.Type().String(); got != c.want {
					fail("ir-constructor", "`%s`: ir.NewGetElementPtr type %s, LLVM rule gives %s", gepText, got, c.want)
				}
			}()
			if ci%997 == 3 {
				fmt.Printf("REPLAY-SAMPLE `%s` : %s\n", gepText, inst.Typ)
			}
		}()
		if !c.constOK {
			continue
		}
		// constant expression form over a global of the element type
		cases++
		ptrT := strings.SplitN(c.base, " %p", 2)[0]
		as := ""
		if strings.Contains(ptrT, "addrspace(3)") {
			as = " addrspace(3)"
		}
		csrc := fmt.Sprintf("%%named = type { i32, %%named* }\n@g = external%s global %s\n@x = global %s getelementptr (%s, %s @g, %s)\n", as, c.elem, c.want, c.elem, ptrT, strings.Join(its, ", "))
		func() {
			var m *ir.Module
			var err error
			func() {
				defer func() {
					if e := recover(); e != nil {
						err = fmt.Errorf("panic: %v", e)
					}
				}()
				m, err = ParseString("c07c.ll", csrc)
			}()
			if err != nil {
				fail("parser-expr", "`%s` as constant expression: %v", gepText, err)
				return
			}
			var x *ir.Global
			for _, g := range m.Globals {
				if g.Name() == "x" {
					x = g
				}
			}
			e, ok := x.Init.(*constant.ExprGetElementPtr)
			if !ok {
				fail("parser-expr", "`%s`: initialiser is %T", gepText, x.Init)
				return
			}
			if got := e.Typ.String(); got != c.want {
				fail("parser-expr", "`%s` as constant expression: parser type %s, LLVM rule gives %s", gepText, got, c.want)
			}
			func() {
				defer func() {
					if r := recover(); r != nil {
						fail("const-constructor", "`%s`: panic: %v", gepText, r)
					}
				}()
				n := constant.NewGetElementPtr(e.ElemType, e.Src, e.Indices...)
				if got := n.Type().String(); got != c.want {
					fail("const-constructor", "`%s`: constant.NewGetElementPtr type %s, LLVM rule gives %s", gepText, got, c.want)
				}
			}()
		}()
	}
	// a struct field selected by a constant EXPRESSION (LLVM folds it; llvm-as accepts the text)
	for _, tc := range []struct{ src, want string }{
		{"", ""},
		{"define i64* @f({i32, i64}* %q) {\n\t%a = getelementptr {i32, i64}, {i32, i64}* %q, i32 0, i32 add (i32 0, i32 1)\n\tret i64* %a\n}\n", "i64*"},
		{"@g = global {i32, i64} zeroinitializer\n@x = global i64* getelementptr ({i32, i64}, {i32, i64}* @g, i32 0, i32 add (i32 0, i32 1))\n", "i64*"},
	} {
		if !parserCases || tc.src == "" {
			continue
		}
		cases++
		func() {
			defer func() {
				if e := recover(); e != nil {
					fail("constexpr-struct-index", "a struct index written as a constant expression panics the parser: %v", strings.Split(fmt.Sprint(e), "\n")[0])
				}
			}()
			if _, err := ParseString("ce.ll", tc.src); err != nil {
				fail("constexpr-struct-index", "a struct index written as a constant expression is rejected: %v", err)
			}
		}()
	}
	_ = types.I1
	var _ value.Value
	fmt.Printf("REPLAY-CASES %d\n", cases)
	if fails > 0 {
		t.Fatalf("%d failures: %v", fails, kinds)
	}
}
