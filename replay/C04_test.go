package asm

// Bounded stand-in for properties C04 and C05 (go test -overlay).
// C04: every reference reachable in a parsed module is the defining object.
// C05: single-point naming faults (undefined use, duplicate definition) are errors.

import (
	"fmt"
	"os"
	"reflect"
	"regexp"
	"strings"
	"testing"

	"github.com/llir/llvm/ir"
	"github.com/llir/llvm/ir/constant"
	"github.com/llir/llvm/ir/metadata"
	"github.com/llir/llvm/ir/types"
)

var verifCorpus = []struct{ name, src string }{
	{"attrgroup-undefined", "define void @f() #3 {\n\tret void\n}\n\ndefine void @g() #3 {\n\tcall void @f() #3\n\tret void\n}\n"},
	{"attachments", "define i32 @f(i32 %x) !a1 !2 {\n\t%y = add i32 %x, 1, !a !12, !a1 !2\n\t%z = add i32 %y, 1, !a1 !12, !a !2\n\tret i32 %z, !b !1\n}\n\n!1 = !{i32 1}\n!2 = !{i32 2}\n!12 = !{i32 12}\n"},
	{"attrgroups-merged", "define void @f() #0 {\n\tret void\n}\n\ndefine void @g() #1 {\n\tcall void @f() #0\n\tret void\n}\n\nattributes #0 = { nounwind }\nattributes #1 = { cold }\nattributes #0 = { readnone }\n"},
	{"recursive-types", `%list = type { i32, %list* }
%a = type { %b* }
%b = type { %a*, %list }
%alias = type %list
@head = global %list { i32 1, %list* @head }
@x = global %a zeroinitializer
@y = global %alias zeroinitializer
`},
	{"globals-forward-mutual", `@a = global i32* @b
@b = global i32* bitcast (i32** @a to i32*)
@arr = global [2 x i8*] [i8* bitcast (void ()* @f to i8*), i8* bitcast (i32** @a to i8*)]
@al = alias i32*, i32** @a
@ifn = ifunc void (), void ()* ()* @resolver
declare void ()* @resolver()
define void @f() {
	call void @g()
	ret void
}
define void @g() {
	call void @f()
	%p = load i32*, i32** @al
	ret void
}
`},
	{"locals-phi-cycles", `define i32 @f(i32 %n, i1 %c) {
entry:
	br label %loop
loop:
	%i = phi i32 [ 0, %entry ], [ %next, %body ]
	%acc = phi i32 [ 1, %entry ], [ %acc2, %body ]
	%cmp = icmp slt i32 %i, %n
	br i1 %cmp, label %body, label %exit
body:
	%next = add i32 %i, 1
	%acc2 = mul i32 %acc, %next
	br label %loop
exit:
	%r = select i1 %c, i32 %acc, i32 %i
	ret i32 %r
}
define i32 @g(i32 %n, i1 %c) {
entry:
	%i = add i32 %n, 1
	br i1 %c, label %exit, label %exit
exit:
	ret i32 %i
}
`},
	{"unnamed-locals-forward", `define i32 @f(i1 %0) {
	br i1 %0, label %2, label %4
2:
	%3 = add i32 1, 2
	br label %4
4:
	%5 = phi i32 [ %3, %2 ], [ 0, %1 ]
	ret i32 %5
}
`},
	{"blockaddress", `@table = global [2 x i8*] [i8* blockaddress(@f, %a), i8* blockaddress(@f, %b)]
@other = global i8* blockaddress(@g, %x)
define void @f(i8* %p) {
entry:
	indirectbr i8* %p, [label %a, label %b]
a:
	ret void
b:
	%q = select i1 true, i8* blockaddress(@g, %x), i8* blockaddress(@f, %a)
	br label %x
x:
	ret void
}
define void @g() {
entry:
	br label %x
x:
	ret void
}
@tbl0 = global [1 x i8*] [i8* blockaddress(@h, %0)]
define void @h(i8* %p) {
entry:
	br label %0
0:
	ret void
}
uselistorder_bb @h, %0, { 0 }
`},
	{"uselistorder", `@g = global i8* blockaddress(@f, %a)
define void @f(i32 %v) {
entry:
	%s = add i32 %v, %v
	br label %a
a:
	ret void
	uselistorder i32 %v, { 1, 0 }
}
uselistorder i8* blockaddress(@f, %a), { 0 }
uselistorder_bb @f, %a, { 0 }
`},
	{"comdat-attrgroups", `$c1 = comdat any
$c2 = comdat largest
@g = global i32 0, comdat($c1)
@h = global i32 0, comdat($c2)
define void @f() comdat($c1) #0 {
	ret void
}
define void @k() #1 {
	call void @f() #0
	ret void
}
attributes #0 = { nounwind }
attributes #1 = { noinline "k"="v" }
`},
	{"metadata-cycles", `@g = global i32 0, !dbg !0
define void @f() !dbg !4 {
	call void @llvm.dbg.value(metadata i32 0, metadata !5, metadata !DIExpression()), !dbg !6
	ret void, !dbg !6
}
declare void @llvm.dbg.value(metadata, metadata, metadata)
!llvm.module.flags = !{!7}
!named = !{!1, !2}
!named = !{!3}
!0 = !DIGlobalVariableExpression(var: !1, expr: !DIExpression())
!1 = distinct !DIGlobalVariable(name: "g", scope: !2, file: !3, line: 1, type: !8, isLocal: false, isDefinition: true)
!2 = distinct !DICompileUnit(language: DW_LANG_C99, file: !3, producer: "x", isOptimized: false, runtimeVersion: 0, emissionKind: FullDebug, globals: !9)
!3 = !DIFile(filename: "a.c", directory: "/")
!4 = distinct !DISubprogram(name: "f", scope: !3, file: !3, line: 2, type: !10, unit: !2)
!5 = !DILocalVariable(name: "v", scope: !4, file: !3, line: 3, type: !8)
!6 = !DILocation(line: 3, column: 1, scope: !4)
!7 = !{i32 2, !"Debug Info Version", i32 3}
!8 = !DIBasicType(name: "int", size: 32, encoding: DW_ATE_signed)
!9 = !{!0}
!10 = !DISubroutineType(types: !11)
!11 = !{null, !12}
!12 = distinct !{!12, !13}
!13 = !{!"cycle", !12}
`},
	{"exception-pads", `declare i32 @pers(...)
declare void @may()
define void @f() personality i32 (...)* @pers {
entry:
	invoke void @may() to label %ok unwind label %cs
cs:
	%sw = catchswitch within none [label %handler] unwind to caller
handler:
	%cp = catchpad within %sw [i8* null]
	invoke void @may() [ "funclet"(token %cp) ] to label %cont unwind label %cleanup
cont:
	catchret from %cp to label %ok
cleanup:
	%cl = cleanuppad within %cp []
	cleanupret from %cl unwind to caller
ok:
	ret void
}
`},
	{"same-local-names", `define i32 @f(i32 %x) {
entry:
	%y = add i32 %x, 1
	br label %next
next:
	ret i32 %y
}
define i32 @g(i32 %x) {
entry:
	%y = mul i32 %x, 2
	br label %next
next:
	ret i32 %y
}
`},
	{"switch-callbr-constants", `@g = global i32 0
define i32 @f(i32 %v) {
entry:
	switch i32 %v, label %d [
		i32 0, label %a
		i32 1, label %b
	]
a:
	%p = getelementptr i32, i32* @g, i64 0
	%l = load i32, i32* %p
	ret i32 %l
b:
	%c = icmp eq i32* @g, null
	%z = zext i1 %c to i32
	ret i32 %z
d:
	ret i32 ptrtoint (i32* @g to i32)
}
`},
}

// verifC04Check walks the whole module graph by reflection and checks that
// every pointer to a definable entity is the entity the module (or the
// enclosing function) lists as its definition.
func verifC04Check(m *ir.Module) []string {
	var errs []string
	addErr := func(f string, a ...interface{}) {
		if len(errs) < 10 {
			errs = append(errs, fmt.Sprintf(f, a...))
		}
	}
	globals := map[*ir.Global]bool{}
	funcs := map[*ir.Func]bool{}
	aliases := map[*ir.Alias]bool{}
	ifuncs := map[*ir.IFunc]bool{}
	comdats := map[*ir.ComdatDef]bool{}
	attrs := map[*ir.AttrGroupDef]bool{}
	blocks := map[*ir.Block]*ir.Func{}
	params := map[*ir.Param]*ir.Func{}
	insts := map[interface{}]*ir.Func{}
	structs := map[*types.StructType]bool{}
	mds := map[metadata.Definition]bool{}
	for _, g := range m.Globals {
		globals[g] = true
	}
	for _, a := range m.Aliases {
		aliases[a] = true
	}
	for _, a := range m.IFuncs {
		ifuncs[a] = true
	}
	for _, c := range m.ComdatDefs {
		comdats[c] = true
	}
	for _, a := range m.AttrGroupDefs {
		attrs[a] = true
	}
	for _, d := range m.MetadataDefs {
		mds[d] = true
	}
	for _, t := range m.TypeDefs {
		if st, ok := t.(*types.StructType); ok {
			structs[st] = true
		}
	}
	for _, f := range m.Funcs {
		funcs[f] = true
		if f.Parent != m {
			addErr("function %s: parent link does not point to the module", f.Ident())
		}
		for _, p := range f.Params {
			params[p] = f
		}
		for _, b := range f.Blocks {
			blocks[b] = f
			if b.Parent != f {
				addErr("block %s of %s: parent link does not agree with containment", b.Ident(), f.Ident())
			}
			for _, i := range b.Insts {
				insts[i] = f
			}
			insts[b.Term] = f
		}
	}
	seen := map[uintptr]bool{}
	var walk func(v reflect.Value, cur *ir.Func, path string)
	walk = func(v reflect.Value, cur *ir.Func, path string) {
		switch v.Kind() {
		case reflect.Interface:
			if !v.IsNil() {
				walk(v.Elem(), cur, path)
			}
		case reflect.Ptr:
			if v.IsNil() {
				return
			}
			switch x := v.Interface().(type) {
			case *ir.Module:
				if x != m {
					addErr("%s: reference to a different module", path)
				}
				if seen[v.Pointer()] {
					return
				}
			case *ir.Global:
				if !globals[x] {
					addErr("%s: global %s is not the object listed in Module.Globals", path, x.Ident())
				}
			case *ir.Func:
				if !funcs[x] {
					addErr("%s: function %s is not the object listed in Module.Funcs", path, x.Ident())
				}
				if seen[v.Pointer()] {
					return
				}
				seen[v.Pointer()] = true
				walk(v.Elem(), x, path+"/"+x.Ident())
				return
			case *ir.Alias:
				if !aliases[x] {
					addErr("%s: alias %s is not the object listed in Module.Aliases", path, x.Ident())
				}
			case *ir.IFunc:
				if !ifuncs[x] {
					addErr("%s: ifunc %s is not the object listed in Module.IFuncs", path, x.Ident())
				}
			case *ir.ComdatDef:
				if !comdats[x] {
					addErr("%s: comdat %s is not the object listed in Module.ComdatDefs", path, x.Name)
				}
			case *ir.AttrGroupDef:
				if !attrs[x] {
					addErr("%s: attribute group #%d is not the object listed in Module.AttrGroupDefs", path, x.ID)
				}
			case *constant.BlockAddress:
				// the block belongs to the function the constant names (never to the function that uses it)
				if b, isB := x.Block.(*ir.Block); isB {
					if f, ok := blocks[b]; ok && constant.Constant(f) != x.Func {
						addErr("%s: blockaddress(%s, %s) holds a block of %s", path, x.Func.Ident(), b.Ident(), f.Ident())
					}
				}
			case *ir.Block:
				f, ok := blocks[x]
				if !ok {
					addErr("%s: block %s is not a block of any function of the module (placeholder survived translation?)", path, x.Ident())
				} else if cur != nil && f != cur && !strings.Contains(path, "BlockAddress") {
					addErr("%s: block %s belongs to %s, referenced from %s", path, x.Ident(), f.Ident(), cur.Ident())
				}
			case *ir.Param:
				f, ok := params[x]
				if !ok {
					addErr("%s: parameter %s is not a parameter of any function of the module", path, x.Ident())
				} else if cur != nil && f != cur {
					addErr("%s: parameter %s of %s referenced from %s", path, x.Ident(), f.Ident(), cur.Ident())
				}
			case *types.StructType:
				if x.TypeName != "" && !structs[x] {
					addErr("%s: identified struct type %%%s is not the object listed in Module.TypeDefs", path, x.TypeName)
				}
			}
			if def, ok := v.Interface().(metadata.Definition); ok && def.ID() != -1 && !mds[def] {
				if _, isExpr := def.(*metadata.DIExpression); !isExpr {
					addErr("%s: metadata node !%d is not the object listed in Module.MetadataDefs", path, def.ID())
				}
			}
			if inst, ok := v.Interface().(ir.Instruction); ok {
				if f, ok2 := insts[inst]; ok2 && cur != nil && f != cur {
					addErr("%s: instruction of %s referenced from %s", path, f.Ident(), cur.Ident())
				} else if !ok2 {
					addErr("%s: instruction %T is not contained in any block of the module", path, inst)
				}
			}
			if seen[v.Pointer()] {
				return
			}
			seen[v.Pointer()] = true
			walk(v.Elem(), cur, path)
		case reflect.Struct:
			t := v.Type()
			if t.PkgPath() == "sync" || t.PkgPath() == "math/big" {
				return
			}
			for i := 0; i < v.NumField(); i++ {
				if t.Field(i).PkgPath != "" {
					continue // unexported
				}
				np := path
				if t.Name() != "" {
					np = path + "." + t.Name() + "." + t.Field(i).Name
					if len(np) > 120 {
						np = "..." + np[len(np)-110:]
					}
				}
				walk(v.Field(i), cur, np)
			}
		case reflect.Slice, reflect.Array:
			for i := 0; i < v.Len(); i++ {
				walk(v.Index(i), cur, path)
			}
		case reflect.Map:
			for _, k := range v.MapKeys() {
				walk(v.MapIndex(k), cur, path)
			}
		}
	}
	walk(reflect.ValueOf(m), nil, "module")
	return errs
}

func TestVerifC04(t *testing.T) {
	cases, fails := 0, 0
	for _, c := range verifCorpus {
		cases++
		var m *ir.Module
		var err error
		func() {
			defer func() {
				if e := recover(); e != nil {
					err = fmt.Errorf("panic: %v", e)
				}
			}()
			m, err = ParseString(c.name+".ll", c.src)
		}()
		if err != nil {
			fails++
			fmt.Printf("REPLAY-FAIL corpus %s: valid module rejected: %v\n", c.name, strings.Split(err.Error(), "\n")[0])
			continue
		}
		for _, e := range verifC04Check(m) {
			fails++
			fmt.Printf("REPLAY-FAIL corpus %s: %s\n", c.name, e)
		}
		// references that name a block from outside its function keep their target: the printed module
		// mentions exactly the (function, block) pairs the input mentions (the corpus uses canonical names)
		func() {
			defer func() {
				if e := recover(); e != nil {
					fails++
					fmt.Printf("REPLAY-FAIL corpus %s: printing panics: %v\n", c.name, e)
				}
			}()
			count := func(text string) map[string]int {
				out := map[string]int{}
				for _, tok := range verifC04BlockRef.FindAllString(text, -1) {
					out[tok]++
				}
				return out
			}
			want, got := count(c.src), count(m.String())
			for tok, n := range want {
				if got[tok] != n {
					fails++
					fmt.Printf("REPLAY-FAIL corpus %s: the input mentions `%s` %d time(s), the printed module %d time(s)\n", c.name, tok, n, got[tok])
				}
			}
		}()
	}
	// named-type aliases: every type definition of the text is listed under its own name, once
	for _, c := range verifCorpus {
		func() {
			defer func() { recover() }()
			m, err := ParseString(c.name+".ll", c.src)
			if err != nil {
				return
			}
			seen := map[string]bool{}
			for _, td := range m.TypeDefs {
				if seen[td.Name()] {
					fails++
					fmt.Printf("REPLAY-FAIL corpus %s: the module lists two type definitions named %%%s (a type alias `%%a = type %%b` is listed under the name of its target, with an empty body)\n", c.name, td.Name())
				}
				seen[td.Name()] = true
			}
		}()
	}
	fmt.Printf("REPLAY-SAMPLE corpus of %d modules, e.g. %s\n", len(verifCorpus), verifCorpus[4].name)
	fmt.Printf("REPLAY-CASES %d\n", cases)
	if fails > 0 {
		t.Fatalf("%d failures", fails)
	}
}

var verifC04BlockRef = regexp.MustCompile(`(blockaddress\(@[-a-zA-Z$._0-9]+, %[-a-zA-Z$._0-9]+\)|uselistorder_bb @[-a-zA-Z$._0-9]+, %[-a-zA-Z$._0-9]+|, ![a-zA-Z_.][-a-zA-Z$._0-9]* ![0-9]+)`)

var verifC05Tok = regexp.MustCompile(`(@|%|\$|!)([-a-zA-Z$._][-a-zA-Z$._0-9]*|[0-9]+)`)

func TestVerifC05(t *testing.T) {
	cases, fails := 0, 0
	fail := func(f string, a ...interface{}) {
		fails++
		if fails <= 30 {
			fmt.Printf("REPLAY-FAIL %s\n", fmt.Sprintf(f, a...))
		}
	}
	only := os.Getenv("VERIF_ONLY")
	try := func(desc, src string) {
		cases++
		var m *ir.Module
		var err error
		func() {
			defer func() {
				if e := recover(); e != nil {
					fail("%s: parser crashed instead of returning an error: %v", desc, strings.Split(fmt.Sprint(e), "\n")[0])
					err = fmt.Errorf("panic")
				}
			}()
			m, err = ParseString("fault.ll", src)
		}()
		if err == nil {
			fail("%s: accepted (a module with %d functions was returned)", desc, len(m.Funcs))
		}
	}
	for _, c := range verifCorpus {
		if only != "" && c.name != only {
			continue
		}
		lines := strings.Split(c.src, "\n")
		// 1. redirect every use of an identifier to an undefined one
		for li, line := range lines {
			for _, loc := range verifC05Tok.FindAllStringIndex(line, -1) {
				tok := line[loc[0]:loc[1]]
				before := strings.TrimSpace(line[:loc[0]])
				after := strings.TrimSpace(line[loc[1]:])
				// definition sites are not uses
				if before == "" && (strings.HasPrefix(after, "=") || strings.HasPrefix(after, ":")) {
					continue
				}
				if strings.HasSuffix(before, "define") || strings.HasSuffix(before, "declare") || strings.Contains(before, "define ") && !strings.Contains(before, "(") || strings.Contains(before, "declare ") && !strings.Contains(before, "(") {
					continue
				}
				sig := tok[:1]
				if sig == "!" && (strings.HasPrefix(tok, "!DI") || strings.HasPrefix(tok, "!llvm") || strings.HasPrefix(tok, "!named") || strings.HasPrefix(tok, "!dbg") || before == "") {
					continue // specialised node keywords, attachment names, named metadata definitions
				}
				if sig == "%" && strings.Contains(before, "(") && strings.Contains(line, "define") && strings.HasSuffix(strings.TrimSpace(line), "{") {
					continue // parameter definitions
				}
				if strings.HasPrefix(after, ":") {
					continue // label definition
				}
				if strings.Contains(line, "llvm.dbg.value") && sig == "@" {
					continue
				}
				repl := sig + "undefined.name.xyz"
				if sig == "!" {
					repl = "!987654"
				}
				if sig == "%" && regexp.MustCompile(`^%[0-9]+$`).MatchString(tok) {
					repl = "%987654"
				}
				mut := append([]string{}, lines...)
				mut[li] = line[:loc[0]] + repl + line[loc[1]:]
				try(fmt.Sprintf("corpus %s line %d: use of %s redirected to undefined %s", c.name, li+1, tok, repl), strings.Join(mut, "\n"))
			}
		}
		// 2. duplicate every single-line definition
		for li, line := range lines {
			tl := strings.TrimSpace(line)
			isDef := regexp.MustCompile(`^(@|%|\$)[-a-zA-Z$._0-9"]+ = `).MatchString(tl) || regexp.MustCompile(`^![0-9]+ = `).MatchString(tl)
			if !isDef || strings.HasPrefix(line, "\t") {
				continue
			}
			mut := append(append(append([]string{}, lines[:li+1]...), line), lines[li+1:]...)
			try(fmt.Sprintf("corpus %s line %d: definition duplicated: %s", c.name, li+1, strings.SplitN(tl, " =", 2)[0]), strings.Join(mut, "\n"))
		}
		// 3. duplicate local definitions (instruction results) and labels
		for li, line := range lines {
			if strings.HasPrefix(line, "\t%") && strings.Contains(line, " = ") && !strings.Contains(line, "phi") && !strings.Contains(line, "catchswitch") && !strings.Contains(line, "catchpad") && !strings.Contains(line, "cleanuppad") {
				mut := append(append(append([]string{}, lines[:li+1]...), line), lines[li+1:]...)
				try(fmt.Sprintf("corpus %s line %d: local definition duplicated: %s", c.name, li+1, strings.TrimSpace(strings.SplitN(line, " =", 2)[0])), strings.Join(mut, "\n"))
			}
		}
	}
	// hand-written faults
	for _, f := range []struct{ name, src string }{
		{"alias to undefined named type", "%a = type %b\n"},
		{"type defined twice", "%T = type { i32 }\n%T = type { i64 }\n"},
		{"type redefined as opaque", "%T = type { i32 }\n%T = type opaque\n"},
		{"type redefined after opaque twice", "%T = type opaque\n%T = type { i32 }\n%T = type { i64 }\n"},
		{"function defined twice", "define void @f() {\n\tret void\n}\ndefine void @f() {\n\tret void\n}\n"},
		{"global and function share a name", "@f = global i32 0\ndefine void @f() {\n\tret void\n}\n"},
		{"duplicate label", "define void @f() {\na:\n\tbr label %a\na:\n\tret void\n}\n"},
		{"duplicate parameter", "define void @f(i32 %x, i32 %x) {\n\tret void\n}\n"},
		{"blockaddress of undefined function", "@g = global i8* blockaddress(@nofunc, %a)\n"},
		{"blockaddress of undefined block", "@g = global i8* blockaddress(@f, %nolabel)\ndefine void @f() {\na:\n\tret void\n}\n"},
		{"uselistorder_bb undefined function", "uselistorder_bb @nofunc, %a, { 0 }\n"},
		{"uselistorder_bb undefined block", "define void @f() {\na:\n\tret void\n}\nuselistorder_bb @f, %nolabel, { 0 }\n"},
		{"undefined comdat", "@g = global i32 0, comdat($nocomdat)\n"},
		{"undefined metadata in named metadata", "!named = !{!5}\n"},
		{"undefined metadata in tuple", "!0 = !{!7}\n"},
		{"metadata id defined twice", "!0 = !{}\n!0 = !{}\n"},
		{"comdat defined twice", "$c = comdat any\n$c = comdat any\n"},
		{"unnamed global @0 defined twice", "@0 = global i32 0\n@0 = global i32 1\n"},
		{"unnamed function @0 defined twice", "define void @0() {\n\tret void\n}\ndefine void @0() {\n\tret void\n}\n"},
		{"unnamed local %1 defined twice", "define i32 @f() {\n\t%1 = add i32 1, 2\n\t%1 = add i32 1, 2\n\tret i32 %1\n}\n"},
		{"unnamed parameter %0 defined twice", "define void @f(i32 %0, i32 %0) {\n\tret void\n}\n"},
		{"unnamed instruction %0 after the entry block took %0", "define i32 @f() {\n\t%1 = add i32 1, 2\n\t%0 = add i32 1, 2\n\tret i32 %0\n}\n"},
		{"parameter name defined twice in a declaration", "declare void @f(i32 %x, i32 %x)\n"},
		{"type opaque defined twice", "%a = type opaque\n%a = type opaque\n"},
		{"type redefined after opaque", "%a = type opaque\n%a = type { i32 }\n"},
		{"undefined type in a preallocated attribute", "declare void @f() preallocated(%undef)\n"},
		{"local used in other function", "define i32 @f(i32 %x) {\n\t%y = add i32 %x, 1\n\tret i32 %y\n}\ndefine i32 @g() {\n\tret i32 %y\n}\n"},
	} {
		try("fault "+f.name, f.src)
	}
	// documented exception: an undefined attribute group is materialised as an empty group
	cases++
	if _, err := ParseString("attr.ll", "define void @f() #7 {\n\tret void\n}\n"); err != nil {
		fail("undefined attribute group ID must be accepted (documented exception): %v", err)
	}
	fmt.Printf("REPLAY-SAMPLE faults injected into %d corpus modules plus 27 hand-written faults\n", len(verifCorpus))
	fmt.Printf("REPLAY-CASES %d\n", cases)
	if fails > 0 {
		t.Fatalf("%d failures", fails)
	}
}
