package natsort

// Replay / bounded harness for property C20 (injected with go test -overlay;
// never written into /repo). Prints REPLAY-FAIL <input> for every violated law.

import (
	"fmt"
	"os"
	"strconv"
	"testing"
)

func verifC20Strings(maxLen int) []string {
	alpha := []byte{'0', '1', '9', 'a', '/', ':'}
	out := []string{""}
	prev := []string{""}
	for l := 1; l <= maxLen; l++ {
		var cur []string
		for _, p := range prev {
			for _, c := range alpha {
				cur = append(cur, p+string(c))
			}
		}
		out = append(out, cur...)
		prev = cur
	}
	return out
}

// numeric reference: compare digit runs by value (then by leading zeros), other bytes bytewise.
func verifC20Ref(a, b string) int {
	i, j := 0, 0
	for i < len(a) && j < len(b) {
		da, db := a[i] >= '0' && a[i] <= '9', b[j] >= '0' && b[j] <= '9'
		if da && db {
			si, sj := i, j
			for i < len(a) && a[i] >= '0' && a[i] <= '9' {
				i++
			}
			for j < len(b) && b[j] >= '0' && b[j] <= '9' {
				j++
			}
			ra, rb := a[si:i], b[sj:j]
			za, zb := 0, 0
			for za < len(ra) && ra[za] == '0' {
				za++
			}
			for zb < len(rb) && rb[zb] == '0' {
				zb++
			}
			na, nb := ra[za:], rb[zb:]
			if len(na) != len(nb) {
				if len(na) < len(nb) {
					return -1
				}
				return 1
			}
			if na != nb {
				if na < nb {
					return -1
				}
				return 1
			}
			if za != zb {
				if za < zb {
					return -1
				}
				return 1
			}
			continue
		}
		if a[i] != b[j] {
			if a[i] < b[j] {
				return -1
			}
			return 1
		}
		i++
		j++
	}
	switch {
	case len(a)-i < len(b)-j:
		return -1
	case len(a)-i > len(b)-j:
		return 1
	}
	return 0
}

func TestVerifC20(t *testing.T) {
	bound, _ := strconv.Atoi(os.Getenv("VERIF_BOUND"))
	if bound <= 0 {
		bound = 3
	}
	ss := verifC20Strings(bound)
	cases := 0
	fails := 0
	fail := func(f string, a ...interface{}) {
		fails++
		if fails <= 5 {
			fmt.Printf("REPLAY-FAIL %s\n", fmt.Sprintf(f, a...))
		}
	}
	less := func(a, b string) (r bool) {
		defer func() {
			if e := recover(); e != nil {
				fail("panic Less(%q,%q): %v", a, b, e)
			}
		}()
		return Less(a, b)
	}
	// the order every sort uses (sort.Sort(Order(a)), natsort.Strings) is Less itself
	ord := Order(ss)
	for i := range ss {
		for j := range ss {
			cases++
			if got, want := ord.Less(i, j), less(ss[i], ss[j]); got != want {
				fail("Order.Less(%q, %q) = %v, Less = %v", ss[i], ss[j], got, want)
			}
		}
	}
	{
		cp := append([]string{}, ss...)
		for i, j := 0, len(cp)-1; i < j; i, j = i+1, j-1 {
			cp[i], cp[j] = cp[j], cp[i]
		}
		Strings(cp)
		for i := 0; i+1 < len(cp); i++ {
			if less(cp[i+1], cp[i]) {
				fail("Strings leaves %q before %q", cp[i], cp[i+1])
				break
			}
		}
	}
	{
		// digit runs beyond 64 bits through the sort itself
		long := []string{"c5", "c18446744073709551616", "c18446744073709551617", "c36893488147419103232", "c9", "c100000000000000000000000", "c018446744073709551616", "c1x", "c10", "c2"}
		Strings(long)
		for i := 0; i+1 < len(long); i++ {
			cases++
			if less(long[i+1], long[i]) || verifC20Ref(long[i], long[i+1]) > 0 {
				fail("Strings leaves %q before %q", long[i], long[i+1])
			}
		}
	}
	n := len(ss)
	lt := make([][]bool, n)
	for i := range ss {
		lt[i] = make([]bool, n)
		for j := range ss {
			lt[i][j] = less(ss[i], ss[j])
			cases++
		}
	}
	for i := range ss {
		if lt[i][i] {
			fail("irreflexive a=%q", ss[i])
		}
		for j := range ss {
			if lt[i][j] && lt[j][i] {
				fail("asymmetric a=%q b=%q", ss[i], ss[j])
			}
			if i != j && !lt[i][j] && !lt[j][i] {
				fail("total a=%q b=%q", ss[i], ss[j])
			}
			if want := verifC20Ref(ss[i], ss[j]) < 0; want != lt[i][j] {
				fail("numeric a=%q b=%q got=%v want=%v", ss[i], ss[j], lt[i][j], want)
			}
		}
	}
	// transitivity over triples (bound-1 for the triple space to stay small)
	ts := verifC20Strings(bound - 1)
	idx := map[string]int{}
	for i, s := range ss {
		idx[s] = i
	}
	for _, a := range ts {
		for _, b := range ts {
			if !lt[idx[a]][idx[b]] {
				continue
			}
			for _, c := range ts {
				cases++
				if lt[idx[b]][idx[c]] && !lt[idx[a]][idx[c]] {
					fail("transitive a=%q b=%q c=%q", a, b, c)
				}
			}
		}
	}
	// Strings() sorts
	fmt.Printf("REPLAY-SAMPLE Less(%q,%q)=%v\n", ss[n/2], ss[n/3], lt[n/2][n/3])
	fmt.Printf("REPLAY-CASES %d\n", cases)
	if fails > 0 {
		t.Fatalf("%d law violations", fails)
	}
}
