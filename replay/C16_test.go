package types

// Bounded stand-in / witness search for property C16 (go test -overlay):
// Equal versus an independent structural reference on a generated universe.

import (
	"fmt"
	"os"
	"strconv"
	"testing"
)

func verifC16Ref(a, b Type) bool {
	switch a := a.(type) {
	case *VoidType:
		_, ok := b.(*VoidType)
		return ok
	case *MMXType:
		_, ok := b.(*MMXType)
		return ok
	case *LabelType:
		_, ok := b.(*LabelType)
		return ok
	case *TokenType:
		_, ok := b.(*TokenType)
		return ok
	case *MetadataType:
		_, ok := b.(*MetadataType)
		return ok
	case *IntType:
		b, ok := b.(*IntType)
		return ok && a.BitSize == b.BitSize
	case *FloatType:
		b, ok := b.(*FloatType)
		return ok && a.Kind == b.Kind
	case *PointerType:
		b, ok := b.(*PointerType)
		return ok && a.AddrSpace == b.AddrSpace && verifC16Ref(a.ElemType, b.ElemType)
	case *VectorType:
		b, ok := b.(*VectorType)
		return ok && a.Scalable == b.Scalable && a.Len == b.Len && verifC16Ref(a.ElemType, b.ElemType)
	case *ArrayType:
		b, ok := b.(*ArrayType)
		return ok && a.Len == b.Len && verifC16Ref(a.ElemType, b.ElemType)
	case *FuncType:
		b, ok := b.(*FuncType)
		if !ok || a.Variadic != b.Variadic || len(a.Params) != len(b.Params) || !verifC16Ref(a.RetType, b.RetType) {
			return false
		}
		for i := range a.Params {
			if !verifC16Ref(a.Params[i], b.Params[i]) {
				return false
			}
		}
		return true
	case *StructType:
		b, ok := b.(*StructType)
		if !ok {
			return false
		}
		if a.TypeName != "" || b.TypeName != "" {
			return a.TypeName == b.TypeName
		}
		if a.Packed != b.Packed || len(a.Fields) != len(b.Fields) {
			return false
		}
		for i := range a.Fields {
			if !verifC16Ref(a.Fields[i], b.Fields[i]) {
				return false
			}
		}
		return true
	}
	return false
}

// verifC16Atoms: constructors of types; consecutive entries often differ in
// exactly one attribute (width, kind, length, scalability, address space,
// packedness, variadicity, name, parameter list).
func verifC16Atoms() []func() Type {
	named := func(name string, fields ...Type) func() Type {
		return func() Type {
			s := NewStruct(fields...)
			s.TypeName = name
			return s
		}
	}
	fn := func(variadic bool, ret Type, params ...Type) func() Type {
		return func() Type {
			f := NewFunc(ret, params...)
			f.Variadic = variadic
			return f
		}
	}
	vec := func(scalable bool, n uint64, e Type) func() Type {
		return func() Type {
			v := NewVector(n, e)
			v.Scalable = scalable
			return v
		}
	}
	st := func(packed bool, fields ...Type) func() Type {
		return func() Type {
			s := NewStruct(fields...)
			s.Packed = packed
			return s
		}
	}
	ptr := func(as AddrSpace, e Type) func() Type {
		return func() Type {
			p := NewPointer(e)
			p.AddrSpace = as
			return p
		}
	}
	c := func(t Type) func() Type { return func() Type { return t } }
	return []func() Type{
		c(Void), c(I1), c(I8), c(I32), func() Type { return NewInt(32) }, func() Type { return NewInt(33) },
		c(Half), c(Float), c(Double), c(X86_FP80), c(FP128), c(PPC_FP128), c(MMX), c(Label), c(Token), c(Metadata),
		fn(false, Void), fn(true, Void), fn(false, I32), fn(true, I32), fn(false, Void, I32), fn(true, Void, I32),
		fn(false, Void, I32, I32), fn(false, Void, I32, I8), fn(true, Void, I32, I8), fn(false, I8, I32),
		vec(false, 2, I32), vec(true, 2, I32), vec(false, 4, I32), vec(false, 2, I8), vec(true, 4, I8),
		func() Type { return NewArray(2, I32) }, func() Type { return NewArray(3, I32) }, func() Type { return NewArray(2, I8) }, func() Type { return NewArray(0, I8) },
		st(false), st(true), st(false, I32), st(true, I32), st(false, I32, I8), st(false, I8, I32), st(false, I32, I32),
		ptr(0, I32), ptr(3, I32), ptr(0, I8), ptr(0, NewPointer(I32)),
		named("a", I32), named("a", I8), named("b", I32), named("a b", I32), named("2", I32), named("", I32),
		func() Type { return &StructType{Opaque: true, TypeName: "op"} },
		func() Type {
			rec := &StructType{TypeName: "rec"}
			rec.Fields = []Type{I32, NewPointer(rec)}
			return rec
		},
	}
}

// verifC16Contexts wrap a type in surrounding structure (pointer contexts exercise PointerType.Equal).
func verifC16Contexts(depth int) []func(Type) Type {
	id := func(t Type) Type { return t }
	p := func(t Type) Type { return NewPointer(t) }
	nonVoid := func(f func(Type) Type) func(Type) Type {
		return func(t Type) Type {
			if _, ok := t.(*VoidType); ok {
				return f(I1)
			}
			if _, ok := t.(*LabelType); ok {
				return f(I1)
			}
			if _, ok := t.(*FuncType); ok {
				return f(NewPointer(t))
			}
			return f(t)
		}
	}
	cs := []func(Type) Type{id,
		nonVoid(p),
		nonVoid(func(t Type) Type { return NewArray(2, t) }),
		nonVoid(func(t Type) Type { return NewStruct(I32, t) }),
		func(t Type) Type { return NewFunc(I32, nonVoid(id)(t)) },
		func(t Type) Type {
			if _, ok := t.(*LabelType); ok {
				t = I1
			}
			return NewFunc(t)
		},
	}
	if depth >= 2 {
		cs = append(cs,
			nonVoid(func(t Type) Type { return NewPointer(NewPointer(t)) }),
			nonVoid(func(t Type) Type { return NewPointer(NewArray(2, NewPointer(t))) }),
			nonVoid(func(t Type) Type { return NewStruct(I32, NewArray(2, NewPointer(t))) }),
			nonVoid(func(t Type) Type { return NewPointer(NewStruct(NewPointer(t), I8)) }),
			func(t Type) Type { return NewPointer(NewFunc(nonVoid(id)(t), I32)) },
		)
	}
	if depth >= 3 {
		cs = append(cs,
			nonVoid(func(t Type) Type { return NewPointer(NewFunc(Void, NewPointer(NewStruct(t)))) }),
			nonVoid(func(t Type) Type { return NewVector(2, NewPointer(NewPointer(NewArray(1, t)))) }),
		)
	}
	return cs
}

func TestVerifC16(t *testing.T) {
	bound, _ := strconv.Atoi(os.Getenv("VERIF_BOUND"))
	if bound <= 0 {
		bound = 2
	}
	atoms := verifC16Atoms()
	ctxs := verifC16Contexts(bound)
	cases, fails := 0, 0
	fail := func(f string, a ...interface{}) {
		fails++
		if fails <= 20 {
			fmt.Printf("REPLAY-FAIL %s\n", fmt.Sprintf(f, a...))
		}
	}
	eq := func(a, b Type) (r bool) {
		defer func() {
			if e := recover(); e != nil {
				fail("panic Equal(%v, %v): %v", a, b, e)
			}
		}()
		return a.Equal(b)
	}
	var sample string
	for _, cx := range ctxs {
		for i, ma := range atoms {
			for j, mb := range atoms {
				a, b := cx(ma()), cx(mb()) // distinct objects even when i == j
				cases++
				got, want := eq(a, b), verifC16Ref(a, b)
				if got != want {
					fail("Equal(%v, %v) = %v, structural identity = %v", a, b, got, want)
				}
				if got != eq(b, a) {
					fail("symmetric %v / %v", a, b)
				}
				if i == j && !eq(a, a) {
					fail("reflexive %v", a)
				}
				if cases == 7777 {
					sample = fmt.Sprintf("Equal(%v, %v) = %v", a, b, got)
				}
			}
		}
	}
	fmt.Printf("REPLAY-SAMPLE %d atoms x %d contexts; %s\n", len(atoms), len(ctxs), sample)
	fmt.Printf("REPLAY-CASES %d\n", cases)
	if fails > 0 {
		t.Fatalf("%d failures", fails)
	}
}
