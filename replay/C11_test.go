package enc

// Witness search / bounded harness for property C11 (go test -overlay): printed
// identifier tokens are decoded with an independent transcription of LLVM's
// lexer rule and with the library's own decoder.

import (
	"fmt"
	"os"
	"strconv"
	"strings"
	"testing"
)

// verifC11Lex decodes the text after the sigil the way LLVM's lexer does:
// quoted string, bare identifier, or unnamed ID.
func verifC11Lex(body string) (kind string, name string) {
	isTailB := func(b byte) bool {
		return b >= 'a' && b <= 'z' || b >= 'A' && b <= 'Z' || b >= '0' && b <= '9' || b == '$' || b == '-' || b == '.' || b == '_'
	}
	if len(body) == 0 {
		return "error", ""
	}
	if body[0] == '"' {
		end := strings.IndexByte(body[1:], '"')
		if end < 0 || end+2 != len(body) {
			return "error", ""
		}
		raw := body[1 : 1+end]
		var out []byte
		for i := 0; i < len(raw); i++ {
			if raw[i] == '\\' && i+2 < len(raw)+0 && i+2 <= len(raw)-1+0 {
				h, err := strconv.ParseUint(raw[i+1:i+3], 16, 8)
				if err == nil {
					out = append(out, byte(h))
					i += 2
					continue
				}
			}
			if raw[i] == '\\' && i+1 < len(raw) && raw[i+1] == '\\' {
				out = append(out, '\\')
				i++
				continue
			}
			out = append(out, raw[i])
		}
		return "name", string(out)
	}
	if body[0] >= '0' && body[0] <= '9' {
		j := 0
		for j < len(body) && body[j] >= '0' && body[j] <= '9' {
			j++
		}
		if j == len(body) {
			return "id", body
		}
		return "error", "" // an ID followed by more characters: two tokens
	}
	for i := 0; i < len(body); i++ {
		if !isTailB(body[i]) {
			return "error", ""
		}
	}
	return "name", body
}

func TestVerifC11(t *testing.T) {
	bound, _ := strconv.Atoi(os.Getenv("VERIF_BOUND"))
	if bound <= 0 {
		bound = 3
	}
	alpha := []byte{'a', 'Z', '1', '0', '/', '"', '\\', ' ', 0xFF, '$', '-', '.', '_', 0x01, '5', 'C', ':'}
	names := []string{}
	prev := []string{""}
	for l := 1; l <= bound; l++ {
		var cur []string
		for _, p := range prev {
			for _, c := range alpha {
				cur = append(cur, p+string([]byte{c}))
			}
		}
		names = append(names, cur...)
		prev = cur
	}
	names = append(names, "18446744073709551615", "18446744073709551616", "99999999999999999999999", "42", "007", `a\5Cb`, `\\`, "世界")
	cases, fails := 0, 0
	fail := func(f string, a ...interface{}) {
		fails++
		if fails <= 20 {
			fmt.Printf("REPLAY-FAIL %s\n", fmt.Sprintf(f, a...))
		}
	}
	seen := map[string]string{}
	for _, n := range names {
		for _, enc := range []struct {
			kind string
			f    func(string) string
			sig  string
			suf  string
		}{{"global", GlobalName, "@", ""}, {"local", LocalName, "%", ""}, {"comdat", ComdatName, "$", ""}, {"label", LabelName, "", ":"}} {
			cases++
			tok := enc.f(n)
			if !strings.HasPrefix(tok, enc.sig) || !strings.HasSuffix(tok, enc.suf) {
				fail("%s name %q printed as %q without its sigil", enc.kind, n, tok)
				continue
			}
			body := tok[len(enc.sig) : len(tok)-len(enc.suf)]
			kind, got := verifC11Lex(body)
			if kind != "name" || got != n {
				fail("%s name %q printed as %q, which LLVM reads as %s %q", enc.kind, n, tok, kind, got)
			}
			if enc.kind == "global" {
				if o, dup := seen[tok]; dup && o != n {
					fail("distinct names %q and %q print alike: %q", o, n, tok)
				}
				seen[tok] = n
			}
		}
		// type names: numeric names are type IDs
		cases++
		tt := TypeName(n)
		kind, got := verifC11Lex(tt[1:])
		if !(kind == "name" && got == n) && !(kind == "id" && got == n) {
			fail("type name %q printed as %q, which LLVM reads as %s %q", n, tt, kind, got)
		}
		// escaping round trips through the library's own decoder
		cases++
		if got := string(Unescape(EscapeString([]byte(n)))); got != n {
			fail("Unescape(EscapeString(%q)) = %q", n, got)
		}
		if got := string(Unquote(Quote([]byte(n)))); got != n {
			fail("Unquote(Quote(%q)) = %q", n, got)
		}
	}
	fmt.Printf("REPLAY-SAMPLE %d names, e.g. %q -> %s\n", len(names), names[len(names)/2], GlobalName(names[len(names)/2]))
	fmt.Printf("REPLAY-CASES %d\n", cases)
	if fails > 0 {
		t.Fatalf("%d failures", fails)
	}
}
