package asm

// Bounded stand-in for the parser side of property C06 (go test -overlay):
// for a corpus of instructions over many operand type shapes, the type the
// parser attaches, the type the IR computes by itself from the same operands
// (cache cleared), and the type LLVM's rules prescribe must agree.

import (
	"fmt"
	"reflect"
	"strings"
	"testing"

	"github.com/llir/llvm/ir"
	"github.com/llir/llvm/ir/value"
)

type verifC06Shape struct {
	t     string // type text
	isVec bool
	scal  bool
	n     int
	elem  string
	kind  string // int float ptr
}

func verifC06Shapes() []verifC06Shape {
	var out []verifC06Shape
	for _, b := range []struct{ t, k string }{{"i1", "int"}, {"i8", "int"}, {"i32", "int"}, {"i64", "int"}, {"i128", "int"}, {"half", "float"}, {"float", "float"}, {"double", "float"}, {"x86_fp80", "float"}, {"i8*", "ptr"}, {"i32 addrspace(3)*", "ptr"}, {"i32 (i32)*", "ptr"}} {
		out = append(out, verifC06Shape{t: b.t, kind: b.k, elem: b.t})
		for _, n := range []int{1, 2, 4} {
			out = append(out, verifC06Shape{t: fmt.Sprintf("<%d x %s>", n, b.t), isVec: true, n: n, elem: b.t, kind: b.k})
			out = append(out, verifC06Shape{t: fmt.Sprintf("<vscale x %d x %s>", n, b.t), isVec: true, scal: true, n: n, elem: b.t, kind: b.k})
		}
	}
	return out
}

func (s verifC06Shape) vecOf(elem string) string {
	if !s.isVec {
		return elem
	}
	if s.scal {
		return fmt.Sprintf("<vscale x %d x %s>", s.n, elem)
	}
	return fmt.Sprintf("<%d x %s>", s.n, elem)
}

type verifC06Case struct {
	decls  string
	params string
	body   string // defines %r (instruction or invoke terminator)
	want   string
}

func verifC06Cases() []verifC06Case {
	var cs []verifC06Case
	add := func(decls, params, body, want string) {
		cs = append(cs, verifC06Case{decls, params, body, want})
	}
	for _, s := range verifC06Shapes() {
		T := s.t
		ab := fmt.Sprintf("%s %%a, %s %%b", T, T)
		switch s.kind {
		case "int":
			for _, op := range []string{"add", "sub", "mul", "udiv", "sdiv", "urem", "srem", "shl", "lshr", "ashr", "and", "or", "xor"} {
				add("", ab, fmt.Sprintf("%%r = %s %s %%a, %%b", op, T), T)
			}
			add("", ab, fmt.Sprintf("%%r = icmp ult %s %%a, %%b", T), s.vecOf("i1"))
			if s.elem != "i1" {
				add("", ab, fmt.Sprintf("%%r = trunc %s %%a to %s", T, s.vecOf("i1")), s.vecOf("i1"))
			}
			if s.elem != "i128" {
				add("", ab, fmt.Sprintf("%%r = zext %s %%a to %s", T, s.vecOf("i256")), s.vecOf("i256"))
				add("", ab, fmt.Sprintf("%%r = sext %s %%a to %s", T, s.vecOf("i256")), s.vecOf("i256"))
			}
			add("", ab, fmt.Sprintf("%%r = uitofp %s %%a to %s", T, s.vecOf("double")), s.vecOf("double"))
			add("", ab, fmt.Sprintf("%%r = sitofp %s %%a to %s", T, s.vecOf("float")), s.vecOf("float"))
			add("", ab, fmt.Sprintf("%%r = inttoptr %s %%a to %s", T, s.vecOf("i8*")), s.vecOf("i8*"))
			if !s.isVec {
				add("", ab+", "+T+"* %p", fmt.Sprintf("%%r = cmpxchg %s* %%p, %s %%a, %s %%b seq_cst seq_cst", T, T, T), "{ "+T+", i1 }")
				add("", ab+", "+T+"* %p", fmt.Sprintf("%%r = atomicrmw add %s* %%p, %s %%a seq_cst", T, T), T)
			}
		case "float":
			for _, op := range []string{"fadd", "fsub", "fmul", "fdiv", "frem"} {
				add("", ab, fmt.Sprintf("%%r = %s %s %%a, %%b", op, T), T)
			}
			add("", ab, fmt.Sprintf("%%r = fneg %s %%a", T), T)
			add("", ab, fmt.Sprintf("%%r = fcmp olt %s %%a, %%b", T), s.vecOf("i1"))
			add("", ab, fmt.Sprintf("%%r = fptoui %s %%a to %s", T, s.vecOf("i32")), s.vecOf("i32"))
			add("", ab, fmt.Sprintf("%%r = fptosi %s %%a to %s", T, s.vecOf("i64")), s.vecOf("i64"))
			if s.elem != "x86_fp80" {
				add("", ab, fmt.Sprintf("%%r = fpext %s %%a to %s", T, s.vecOf("fp128")), s.vecOf("fp128"))
			}
		case "ptr":
			add("", ab, fmt.Sprintf("%%r = icmp eq %s %%a, %%b", T), s.vecOf("i1"))
			add("", ab, fmt.Sprintf("%%r = ptrtoint %s %%a to %s", T, s.vecOf("i64")), s.vecOf("i64"))
			if !s.isVec && !strings.Contains(T, "addrspace") {
				add("", ab, fmt.Sprintf("%%r = bitcast %s %%a to i16*", T), "i16*")
				add("", ab, fmt.Sprintf("%%r = addrspacecast %s %%a to i16 addrspace(7)*", T), "i16 addrspace(7)*")
			}
		}
		// kind-independent
		cond := "i1"
		if s.isVec {
			cond = s.vecOf("i1")
		}
		add("", ab+", "+cond+" %c", fmt.Sprintf("%%r = select %s %%c, %s %%a, %s %%b", cond, T, T), T)
		add("", ab+", i1 %c", fmt.Sprintf("%%r = select i1 %%c, %s %%a, %s %%b", T, T), T)
		add("", ab, fmt.Sprintf("%%r = freeze %s %%a", T), T)
		add("", ab, fmt.Sprintf("br label %%next\nnext:\n\t%%r = phi %s [ %%a, %%0 ]", T), T)
		add("", ab+", "+T+"* %p", fmt.Sprintf("%%r = load %s, %s* %%p", T, T), T)
		add("", ab, fmt.Sprintf("%%r = alloca %s", T), T+"*")
		add("", ab, fmt.Sprintf("%%r = alloca %s, i32 4, align 8, addrspace(5)", T), T+" addrspace(5)*")
		add("", ab+", i8* %ap", fmt.Sprintf("%%r = va_arg i8* %%ap, %s", T), T)
		add("", ab, fmt.Sprintf("%%r = insertvalue { i32, [2 x %s] } undef, %s %%a, 1, 1", T, T), "{ i32, [2 x "+T+"] }")
		add("", ab+", { i32, [2 x "+T+"] } %s", fmt.Sprintf("%%r = extractvalue { i32, [2 x %s] } %%s, 1, 0", T), T)
		add("", ab+", { i32, [2 x "+T+"] } %s", fmt.Sprintf("%%r = extractvalue { i32, [2 x %s] } %%s, 1", T), "[2 x "+T+"]")
		add("", ab+", <{ i8, "+T+" }> %s", fmt.Sprintf("%%r = extractvalue <{ i8, %s }> %%s, 1", T), T)
		// struct inside struct, the deeper index differs from the first (and selects a field of another type)
		add("", ab+", { i1, { i64, "+T+", i8 } } %s", fmt.Sprintf("%%r = extractvalue { i1, { i64, %s, i8 } } %%s, 1, 0", T), "i64")
		add("", ab+", { i1, { i64, "+T+", i8 } } %s", fmt.Sprintf("%%r = extractvalue { i1, { i64, %s, i8 } } %%s, 1, 2", T), "i8")
		add("", ab+", { i1, { i64, "+T+", i8 } } %s", fmt.Sprintf("%%r = extractvalue { i1, { i64, %s, i8 } } %%s, 1, 1", T), T)
		add("", ab+", { i1, { i64, "+T+", i8 } } %s", fmt.Sprintf("%%r = insertvalue { i1, { i64, %s, i8 } } %%s, %s %%a, 1, 1", T, T), "{ i1, { i64, "+T+", i8 } }")
		if s.isVec {
			add("", ab, fmt.Sprintf("%%r = extractelement %s %%a, i32 0", T), s.elem)
			add("", ab+", "+s.elem+" %e", fmt.Sprintf("%%r = insertelement %s %%a, %s %%e, i64 0", T, s.elem), T)
			for _, m := range []int{1, 2, 8} {
				mask := fmt.Sprintf("<%d x i32>", m)
				res := fmt.Sprintf("<%d x %s>", m, s.elem)
				if s.scal {
					mask = fmt.Sprintf("<vscale x %d x i32>", m)
					res = fmt.Sprintf("<vscale x %d x %s>", m, s.elem)
				}
				add("", ab, fmt.Sprintf("%%r = shufflevector %s %%a, %s %%b, %s zeroinitializer", T, T, mask), res)
			}
		}
		// calls: short form, explicit non-variadic signature, variadic signature, callee returning the type
		add("declare "+T+" @callee("+T+")", ab, fmt.Sprintf("%%r = call %s @callee(%s %%a)", T, T), T)
		add("declare "+T+" @callee("+T+")", ab, fmt.Sprintf("%%r = call %s (%s) @callee(%s %%a)", T, T, T), T)
		add("declare "+T+" @callee("+T+", ...)", ab, fmt.Sprintf("%%r = call %s (%s, ...) @callee(%s %%a, i32 1)", T, T, T), T)
		add("declare "+T+" ("+T+")* @getfn()", ab, fmt.Sprintf("%%r = call %s (%s)* @getfn()", T, T), T+" ("+T+")*")
		add("declare "+T+" (...)* @getvfn()", ab, fmt.Sprintf("%%r = call %s (...)* @getvfn()", T), T+" (...)*")
		add("declare "+T+" @callee("+T+")\ndeclare i32 @pers(...)", ab, fmt.Sprintf("%%r = invoke %s @callee(%s %%a) to label %%ok unwind label %%bad\nok:\n\tret void\nbad:\n\t%%lp = landingpad { i8*, i32 } cleanup\n\tret void", T, T), T)
		add("declare "+T+" @callee("+T+")\ndeclare i32 @pers(...)", ab, fmt.Sprintf("%%r = invoke %s (%s) @callee(%s %%a) to label %%ok unwind label %%bad\nok:\n\tret void\nbad:\n\t%%lp = landingpad { i8*, i32 } cleanup\n\tret void", T, T, T), T)
	}
	// void call-likes must not produce a value (numbering relies on it): checked via Type()
	cs = append(cs, verifC06Case{"declare void @v(i32)", "i32 %a", "call void (i32) @v(i32 %a)\n\t%r = add i32 %a, %a", "i32"})
	return cs
}

func verifC06Find(f *ir.Func, name string) (value.Value, interface{}) {
	for _, b := range f.Blocks {
		for _, inst := range b.Insts {
			if n, ok := inst.(value.Named); ok && n.Name() == name {
				return n, inst
			}
		}
		if n, ok := b.Term.(value.Named); ok && n.Name() == name {
			return n, b.Term
		}
	}
	return nil, nil
}

func TestVerifC06(t *testing.T) {
	cases, fails := 0, 0
	fail := func(f string, a ...interface{}) {
		fails++
		if fails <= 30 {
			fmt.Printf("REPLAY-FAIL %s\n", fmt.Sprintf(f, a...))
		}
	}
	for i, c := range verifC06Cases() {
		cases++
		pers := ""
		if strings.Contains(c.body, "landingpad") {
			pers = " personality i32 (...)* @pers"
		}
		term := "\n\tret void"
		if strings.Contains(c.body, "invoke") {
			term = ""
		}
		src := fmt.Sprintf("%s\ndefine void @f(%s)%s {\n\t%s%s\n}\n", c.decls, c.params, pers, c.body, term)
		desc := strings.Split(c.body, "\n")
		first := desc[0]
		for _, l := range desc {
			if strings.Contains(l, "%r =") {
				first = strings.TrimSpace(l)
			}
		}
		func() {
			defer func() {
				if e := recover(); e != nil {
					fail("panic on `%s`: %v", first, e)
				}
			}()
			m, err := ParseString("c06.ll", src)
			if err != nil {
				fail("parse error on `%s`: %v", first, err)
				return
			}
			var f *ir.Func
			for _, fn := range m.Funcs {
				if fn.Name() == "f" {
					f = fn
				}
			}
			v, obj := verifC06Find(f, "r")
			if v == nil {
				fail("result %%r not found for `%s`", first)
				return
			}
			got := v.Type().String()
			if got != c.want {
				fail("parser type `%s`: got %s, LLVM rule gives %s", first, got, c.want)
			}
			// recompute on the IR side from the same operands
			rv := reflect.ValueOf(obj).Elem()
			if fld := rv.FieldByName("Typ"); fld.IsValid() && fld.CanSet() {
				fld.Set(reflect.Zero(fld.Type()))
				got2 := v.Type().String()
				if got2 != c.want {
					fail("ir type `%s`: got %s, LLVM rule gives %s", first, got2, c.want)
				}
			}
			// the printed module must re-parse (numbering of void call-likes)
			if _, err := ParseString("c06b.ll", m.String()); err != nil {
				fail("printed module does not re-parse for `%s`: %v", first, err)
			}
			if i%211 == 7 {
				fmt.Printf("REPLAY-SAMPLE `%s` : %s\n", first, got)
			}
		}()
	}
	fmt.Printf("REPLAY-CASES %d\n", cases)
	if fails > 0 {
		t.Fatalf("%d failures", fails)
	}
}
