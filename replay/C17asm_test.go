package asm

// Witness-search harness for property C17 on the parser side (go test -overlay): a named metadata
// name defined several times lists, in textual order, one node per operand of every definition --
// repeated operands and operands shared between definitions included -- and every !N operand is the
// very definition object the module lists under that ID.

import (
	"reflect"
	"regexp"
	"fmt"
	"strings"
	"testing"

	"github.com/llir/llvm/ir/metadata"
)

func TestVerifC17Asm(t *testing.T) {
	cases, fails := 0, 0
	fail := func(f string, a ...interface{}) {
		fails++
		if fails <= 20 {
			fmt.Printf("REPLAY-FAIL %s\n", fmt.Sprintf(f, a...))
		}
	}
	// operand lists of up to three definitions of one name over the IDs 0..2
	lists := [][]int{{}, {0}, {1}, {2, 0}, {0, 0}, {0, 1, 2}, {2, 2, 1}}
	for _, a := range lists {
		for _, b := range lists {
			for _, c := range lists {
				cases++
				var want []int
				var sb strings.Builder
				for _, l := range [][]int{a, b, c} {
					var ops []string
					for _, id := range l {
						ops = append(ops, fmt.Sprintf("!%d", id))
						want = append(want, id)
					}
					fmt.Fprintf(&sb, "!x = !{%s}\n", strings.Join(ops, ", "))
				}
				sb.WriteString("!0 = !{i32 0}\n!1 = !{i32 1}\n!2 = !{i32 2}\n")
				func() {
					defer func() {
						if e := recover(); e != nil {
							fail("definitions %v %v %v: panic %v", a, b, c, e)
						}
					}()
					m, err := ParseString("x.ll", sb.String())
					if err != nil {
						fail("definitions %v %v %v: %v", a, b, c, err)
						return
					}
					nd := m.NamedMetadataDefs["x"]
					if nd == nil {
						fail("definitions %v %v %v: named metadata !x missing", a, b, c)
						return
					}
					var got []int
					for _, n := range nd.Nodes {
						d, ok := n.(metadata.Definition)
						if !ok {
							fail("definitions %v %v %v: node %T is not a metadata definition", a, b, c, n)
							return
						}
						got = append(got, int(d.ID()))
						found := false
						for _, md := range m.MetadataDefs {
							if md == d {
								found = true
							}
						}
						if !found {
							fail("definitions %v %v %v: operand !%d is not the definition object listed by the module", a, b, c, d.ID())
						}
					}
					if fmt.Sprint(got) != fmt.Sprint(want) {
						fail("definitions !x = %v, %v, %v: merged node list is %v, expected the concatenation %v", a, b, c, got, want)
					}
				}()
			}
		}
	}
	// sparse numbering: every definition of the text is listed by the module, every reference is a listed definition
	for _, ids := range [][]int{{1, 2}, {0, 1, 3}, {0, 2, 4, 5}, {0, 1, 2, 3}, {3, 1}, {7}, {0, 5, 6, 2}, {1, 2, 3, 4, 5}} {
		cases++
		var sb strings.Builder
		var ops []string
		for _, id := range ids {
			fmt.Fprintf(&sb, "!%d = !{i32 %d}\n", id, id)
			ops = append(ops, fmt.Sprintf("!%d", id))
		}
		fmt.Fprintf(&sb, "!x = !{%s}\n", strings.Join(ops, ", "))
		func() {
			defer func() {
				if e := recover(); e != nil {
					fail("ids %v: panic %v", ids, e)
				}
			}()
			m, err := ParseString("s.ll", sb.String())
			if err != nil {
				fail("ids %v: %v", ids, err)
				return
			}
			listed := map[int64]bool{}
			for _, d := range m.MetadataDefs {
				listed[d.ID()] = true
			}
			for _, id := range ids {
				if !listed[int64(id)] {
					fail("ids %v: the definition !%d of the text is not listed in Module.MetadataDefs", ids, id)
				}
			}
			if len(m.MetadataDefs) != len(ids) {
				fail("ids %v: the module lists %d definitions", ids, len(m.MetadataDefs))
			}
			out := m.String()
			if _, err := ParseString("s2.ll", out); err != nil {
				fail("ids %v: the printed module does not parse (a reference without definition?): %v", ids, err)
			}
		}()
	}
	// references inside specialized nodes: every `field: !N` of the text is printed back as `field: !N`
	refRe := regexp.MustCompile(`([a-zA-Z]+): (![0-9]+)`)
	for _, line := range []string{
		`!10 = !DICompositeType(tag: DW_TAG_array_type, name: "t", scope: !1, file: !2, line: 3, baseType: !3, size: 32, elements: !4, templateParams: !6, identifier: "id", discriminator: !7, dataLocation: !8, associated: !9, allocated: !11, rank: !12, annotations: !13)`,
		`!10 = distinct !DISubprogram(name: "f", linkageName: "f", scope: !1, file: !2, line: 1, type: !3, scopeLine: 1, containingType: !5, spFlags: DISPFlagDefinition, templateParams: !6, declaration: !7, retainedNodes: !8, thrownTypes: !9, annotations: !13)`,
		`!10 = !DIDerivedType(tag: DW_TAG_member, name: "m", scope: !1, file: !2, line: 2, baseType: !3, size: 32, offset: 32, extraData: !5, annotations: !13)`,
		`!10 = distinct !DICompileUnit(language: DW_LANG_C99, file: !2, producer: "p", isOptimized: false, runtimeVersion: 0, emissionKind: FullDebug, enums: !4, retainedTypes: !5, globals: !6, imports: !7, macros: !8)`,
		`!10 = !DILocalVariable(name: "v", arg: 1, scope: !1, file: !2, line: 1, type: !3, annotations: !13)`,
		`!10 = distinct !DIGlobalVariable(name: "g", linkageName: "g", scope: !1, file: !2, line: 1, type: !3, isLocal: false, isDefinition: true, declaration: !5, templateParams: !6, annotations: !13)`,
		`!10 = !DISubrange(count: !1, lowerBound: !3, upperBound: !5, stride: !6)`,
		`!10 = !DIImportedEntity(tag: DW_TAG_imported_module, name: "n", scope: !1, entity: !3, file: !2, line: 1, elements: !4)`,
		`!10 = !DILexicalBlock(scope: !1, file: !2, line: 1, column: 2)`,
		`!10 = !DITemplateTypeParameter(name: "T", type: !3)`,
		`!10 = !DITemplateValueParameter(tag: DW_TAG_template_value_parameter, name: "V", type: !3, value: !5)`,
		`!10 = !DICommonBlock(scope: !1, declaration: !5, name: "c", file: !2, line: 1)`,
		`!10 = !DIObjCProperty(name: "p", file: !2, line: 1, setter: "s", getter: "g", attributes: 1, type: !3)`,
		`!10 = !DIStringType(name: "s", stringLength: !1, stringLengthExpression: !3, stringLocationExpression: !5, size: 32)`,
		`!10 = !DINamespace(name: "n", scope: !1)`,
		`!10 = !DIModule(scope: !1, name: "m", file: !2, line: 1)`,
		`!10 = !DISubroutineType(types: !4)`,
		`!10 = !DILabel(scope: !1, name: "l", file: !2, line: 1)`,
		`!10 = !DILexicalBlockFile(scope: !1, file: !2, discriminator: 0)`,
		`!10 = !DIMacroFile(line: 1, file: !2, nodes: !4)`,
		`!10 = !DILocation(line: 1, column: 2, scope: !1)`,
	} {
		cases++
		src := line + "\n!1 = !DIFile(filename: \"a\", directory: \"b\")\n!2 = !DIFile(filename: \"c\", directory: \"d\")\n"
		for _, id := range []int{3, 4, 5, 6, 7, 8, 9, 11, 12, 13, 14} {
			src += fmt.Sprintf("!%d = !{i32 %d}\n", id, id)
		}
		func() {
			defer func() {
				if e := recover(); e != nil {
					fail("node %s: panic %v", strings.SplitN(line, "(", 2)[0], e)
				}
			}()
			m, err := ParseString("n.ll", src)
			if err != nil {
				fail("node %s: %v", strings.SplitN(line, "(", 2)[0], err)
				return
			}
			printed := ""
			for _, l := range strings.Split(m.String(), "\n") {
				if strings.HasPrefix(l, "!10 = ") {
					printed = l
				}
			}
			want := map[string]bool{}
			for _, mm := range refRe.FindAllStringSubmatch(line, -1) {
				want[mm[1]+": "+mm[2]] = true
			}
			got := map[string]bool{}
			for _, mm := range refRe.FindAllStringSubmatch(printed, -1) {
				got[mm[1]+": "+mm[2]] = true
			}
			for k := range want {
				if !got[k] {
					fail("node %s: the reference `%s` of the text is not printed back: %s", strings.SplitN(line, "(", 2)[0], k, printed)
				}
			}
			for k := range got {
				if !want[k] {
					fail("node %s: the printed node has a reference `%s` the text does not have: %s", strings.SplitN(line, "(", 2)[0], k, printed)
				}
			}
		}()
	}
	// fields whose type admits only one kind of node (a numbered DIExpression, a DIGlobalVariable): a reference stays
	// a reference to the numbered definition -- it is not expanded in place -- in the text and after parsing it again
	for _, src := range []string{
		"!10 = !DIGlobalVariableExpression(var: !3, expr: !5)\n!3 = distinct !DIGlobalVariable(name: \"g\")\n!5 = !DIExpression(DW_OP_deref)\n",
		"!10 = !DIGlobalVariableExpression(var: !3, expr: !DIExpression())\n!3 = distinct !DIGlobalVariable(name: \"g\")\n!5 = !DIExpression(DW_OP_deref)\n",
	} {
		cases++
		func() {
			defer func() {
				if e := recover(); e != nil {
					fail("typed reference fields: panic %v on\n%s", e, src)
				}
			}()
			m, err := ParseString("n.ll", src)
			if err != nil {
				fail("typed reference fields: %v on\n%s", err, src)
				return
			}
			line := strings.SplitN(src, "\n", 2)[0]
			printed := ""
			for _, l := range strings.Split(m.String(), "\n") {
				if strings.HasPrefix(l, "!10 = ") {
					printed = l
				}
			}
			for _, mm := range refRe.FindAllStringSubmatch(line, -1) {
				if !strings.Contains(printed, mm[1]+": "+mm[2]) {
					fail("typed reference fields: the reference `%s: %s` of the text is not printed back: %s", mm[1], mm[2], printed)
				}
			}
			if strings.Contains(line, "expr: !DIExpression()") && !strings.Contains(printed, "expr: !DIExpression()") {
				fail("typed reference fields: the in-place expression of the text is not printed in place: %s", printed)
			}
		}()
	}
	fmt.Printf("REPLAY-SAMPLE %d combinations of three definitions of !x\n", cases)
	fmt.Printf("REPLAY-CASES %d\n", cases)
	if fails > 0 {
		t.Fatalf("%d failures", fails)
	}
}


// TestVerifC18Nodes (shared by C17 and C18): enumerated and scalar fields of specialised metadata nodes survive
// print and parse -- a field the printer leaves out as "default" must be read back as that value -- and a numbered
// node used in a named metadata definition is printed as a reference.
func TestVerifC18Nodes(t *testing.T) {
	cases, fails := 0, 0
	fail := func(f string, a ...interface{}) {
		fails++
		if fails <= 20 {
			fmt.Printf("REPLAY-FAIL %s\n", fmt.Sprintf(f, a...))
		}
	}
	scalars := func(n interface{}) string {
		v := reflect.ValueOf(n)
		for v.Kind() == reflect.Ptr || v.Kind() == reflect.Interface {
			if v.IsNil() {
				return "<nil>"
			}
			v = v.Elem()
		}
		if v.Kind() != reflect.Struct {
			return fmt.Sprint(n)
		}
		var sb strings.Builder
		for i := 0; i < v.NumField(); i++ {
			f := v.Field(i)
			switch f.Kind() {
			case reflect.Bool, reflect.String, reflect.Int, reflect.Int8, reflect.Int16, reflect.Int32, reflect.Int64, reflect.Uint, reflect.Uint8, reflect.Uint16, reflect.Uint32, reflect.Uint64:
				fmt.Fprintf(&sb, "%s=%v ", v.Type().Field(i).Name, f.Interface())
			}
		}
		return sb.String()
	}
	var lines []string
	for _, k := range []string{"DW_MACINFO_define", "DW_MACINFO_undef", "DW_MACINFO_start_file", "DW_MACINFO_end_file", "DW_MACINFO_vendor_ext"} {
		lines = append(lines, "!10 = !DIMacroFile(type: "+k+", line: 1, file: !2)", "!10 = !DIMacro(type: "+k+", line: 1, name: \"n\", value: \"v\")")
	}
	for _, k := range []string{"DW_ATE_float", "DW_ATE_signed", "DW_ATE_boolean", "DW_ATE_unsigned_char"} {
		lines = append(lines, "!10 = !DIBasicType(name: \"t\", size: 32, encoding: "+k+")")
	}
	for _, k := range []string{"NoDebug", "FullDebug", "LineTablesOnly", "DebugDirectivesOnly"} {
		lines = append(lines, "!10 = distinct !DICompileUnit(language: DW_LANG_C99, file: !2, emissionKind: "+k+")")
	}
	for _, k := range []string{"GNU", "None"} {
		lines = append(lines, "!10 = distinct !DICompileUnit(language: DW_LANG_C_plus_plus, file: !2, emissionKind: FullDebug, nameTableKind: "+k+")")
	}
	for _, k := range []string{"DW_VIRTUALITY_none", "DW_VIRTUALITY_virtual", "DW_VIRTUALITY_pure_virtual"} {
		lines = append(lines, "!10 = distinct !DISubprogram(name: \"f\", scope: !1, file: !2, line: 1, virtuality: "+k+", spFlags: 0)")
	}
	for _, k := range []string{"DW_CC_normal", "DW_CC_program", "DW_CC_nocall", "DW_CC_pass_by_value"} {
		lines = append(lines, "!10 = !DISubroutineType(cc: "+k+", types: !4)")
	}
	for _, k := range []string{"CSK_MD5", "CSK_SHA1"} {
		lines = append(lines, "!10 = !DIFile(filename: \"a\", directory: \"b\", checksumkind: "+k+", checksum: \"00\")")
	}
	for _, line := range lines {
		cases++
		src := line + "\n!1 = !DIFile(filename: \"a\", directory: \"b\")\n!2 = !DIFile(filename: \"c\", directory: \"d\")\n!4 = !{}\n"
		func() {
			defer func() {
				if e := recover(); e != nil {
					fail("node `%s`: panic %v", line, e)
				}
			}()
			m1, err := ParseString("n1.ll", src)
			if err != nil {
				fail("node `%s`: %v", line, err)
				return
			}
			m2, err := ParseString("n2.ll", m1.String())
			if err != nil {
				fail("node `%s`: the printed module does not parse: %v", line, err)
				return
			}
			find := func(defs []metadata.Definition) metadata.Definition {
				for _, d := range defs {
					if d.ID() == 10 {
						return d
					}
				}
				return nil
			}
			a, b := scalars(find(m1.MetadataDefs)), scalars(find(m2.MetadataDefs))
			if a != b {
				fail("node `%s`: after print and parse the node reads %s, before %s", line, b, a)
			}
		}()
	}
	// numbered nodes in a named metadata definition are printed as references
	for _, node := range []string{"!DIExpression(DW_OP_deref)", "!{i32 1}", "!DIFile(filename: \"a\", directory: \"b\")", "distinct !{}"} {
		cases++
		src := "!n = !{!1, !0, !1}\n!0 = !{}\n!1 = " + node + "\n"
		m, err := ParseString("nm.ll", src)
		if err != nil {
			fail("named metadata over %s: %v", node, err)
			continue
		}
		if out := m.String(); !strings.Contains(out, "!n = !{!1, !0, !1}") {
			fail("named metadata over the numbered node %s is not printed as `!n = !{!1, !0, !1}`:\n%s", node, out)
		}
	}
	fmt.Printf("REPLAY-SAMPLE %d specialised nodes with enumerated fields, e.g. %s\n", len(lines), lines[2])
	fmt.Printf("REPLAY-CASES %d\n", cases)
	if fails > 0 {
		t.Fatalf("%d failures", fails)
	}
}
