package asm

// Witness-search harness for property C17 on the parser side (go test -overlay): a named metadata
// name defined several times lists, in textual order, one node per operand of every definition --
// repeated operands and operands shared between definitions included -- and every !N operand is the
// very definition object the module lists under that ID.

import (
	"fmt"
	"strings"
	"testing"

	"github.com/llir/llvm/ir/metadata"
)

func TestVerifC17Asm(t *testing.T) {
	cases, fails := 0, 0
	fail := func(f string, a ...interface{}) {
		fails++
		if fails <= 20 {
			fmt.Printf("REPLAY-FAIL %s\n", fmt.Sprintf(f, a...))
		}
	}
	// operand lists of up to three definitions of one name over the IDs 0..2
	lists := [][]int{{}, {0}, {1}, {2, 0}, {0, 0}, {0, 1, 2}, {2, 2, 1}}
	for _, a := range lists {
		for _, b := range lists {
			for _, c := range lists {
				cases++
				var want []int
				var sb strings.Builder
				for _, l := range [][]int{a, b, c} {
					var ops []string
					for _, id := range l {
						ops = append(ops, fmt.Sprintf("!%d", id))
						want = append(want, id)
					}
					fmt.Fprintf(&sb, "!x = !{%s}\n", strings.Join(ops, ", "))
				}
				sb.WriteString("!0 = !{i32 0}\n!1 = !{i32 1}\n!2 = !{i32 2}\n")
				func() {
					defer func() {
						if e := recover(); e != nil {
							fail("definitions %v %v %v: panic %v", a, b, c, e)
						}
					}()
					m, err := ParseString("x.ll", sb.String())
					if err != nil {
						fail("definitions %v %v %v: %v", a, b, c, err)
						return
					}
					nd := m.NamedMetadataDefs["x"]
					if nd == nil {
						fail("definitions %v %v %v: named metadata !x missing", a, b, c)
						return
					}
					var got []int
					for _, n := range nd.Nodes {
						d, ok := n.(metadata.Definition)
						if !ok {
							fail("definitions %v %v %v: node %T is not a metadata definition", a, b, c, n)
							return
						}
						got = append(got, int(d.ID()))
						found := false
						for _, md := range m.MetadataDefs {
							if md == d {
								found = true
							}
						}
						if !found {
							fail("definitions %v %v %v: operand !%d is not the definition object listed by the module", a, b, c, d.ID())
						}
					}
					if fmt.Sprint(got) != fmt.Sprint(want) {
						fail("definitions !x = %v, %v, %v: merged node list is %v, expected the concatenation %v", a, b, c, got, want)
					}
				}()
			}
		}
	}
	fmt.Printf("REPLAY-SAMPLE %d combinations of three definitions of !x\n", cases)
	fmt.Printf("REPLAY-CASES %d\n", cases)
	if fails > 0 {
		t.Fatalf("%d failures", fails)
	}
}
