package ir

// Replay / bounded harness for property C15 (injected with go test -overlay).
// The expected operand slots are derived by reflection from the struct
// declarations: every field of interface type value.Value, every element of a
// []value.Value field and, recursively, the same inside []*T sub-structures.

import (
	"github.com/llir/llvm/ir/enum"
	"fmt"
	"os"
	"reflect"
	"strings"
	"testing"

	"github.com/llir/llvm/ir/constant"
	"github.com/llir/llvm/ir/types"
	"github.com/llir/llvm/ir/value"
)

var verifC15ValueT = reflect.TypeOf((*value.Value)(nil)).Elem()

// verifC15Types is generated: all struct types of package ir with an Operands method.
var verifC15Types = []interface{}{ /*TYPES*/ }

type verifC15Filler struct {
	n      int
	blocks []*Block
}

// verifC15IsSucc: fields that hold branch targets (successor blocks).
func verifC15IsSucc(name string) bool {
	return strings.Contains(name, "Target") || name == "Handlers"
}

func (f *verifC15Filler) val(field string) value.Value {
	f.n++
	if verifC15IsSucc(field) || field == "Pred" {
		b := NewBlock(fmt.Sprintf("b%d", f.n))
		f.blocks = append(f.blocks, b)
		return b
	}
	return constant.NewInt(types.I32, int64(f.n))
}

// fill populates every slot of the struct v (addressable) and returns the
// addresses of the slots in declaration order; optional selects whether
// single value.Value fields listed in skip stay nil.
func (f *verifC15Filler) fill(v reflect.Value, nelem int, skipNil map[string]bool, path string) []*value.Value {
	var slots []*value.Value
	t := v.Type()
	for i := 0; i < t.NumField(); i++ {
		fd := t.Field(i)
		fv := v.Field(i)
		name := path + fd.Name
		switch {
		case fd.Type == verifC15ValueT:
			if skipNil[name] {
				continue
			}
			fv.Set(reflect.ValueOf(f.val(fd.Name)))
			slots = append(slots, fv.Addr().Interface().(*value.Value))
		case fd.Type.Kind() == reflect.Slice && fd.Type.Elem() == verifC15ValueT:
			s := reflect.MakeSlice(fd.Type, nelem, nelem)
			fv.Set(s)
			for k := 0; k < nelem; k++ {
				fv.Index(k).Set(reflect.ValueOf(f.val(fd.Name)))
				slots = append(slots, fv.Index(k).Addr().Interface().(*value.Value))
			}
		case fd.Type.Kind() == reflect.Slice && fd.Type.Elem().Kind() == reflect.Ptr && fd.Type.Elem().Elem().Kind() == reflect.Struct && fd.Type.Elem().Elem().PkgPath() == t.PkgPath() && fd.Name != "Successors":
			et := fd.Type.Elem().Elem()
			if !verifC15HasSlots(et) {
				continue
			}
			s := reflect.MakeSlice(fd.Type, nelem, nelem)
			fv.Set(s)
			for k := 0; k < nelem; k++ {
				e := reflect.New(et)
				fv.Index(k).Set(e)
				slots = append(slots, f.fill(e.Elem(), nelem, skipNil, name+".")...)
			}
		}
	}
	return slots
}

func verifC15HasSlots(t reflect.Type) bool {
	for i := 0; i < t.NumField(); i++ {
		ft := t.Field(i).Type
		if ft == verifC15ValueT || (ft.Kind() == reflect.Slice && ft.Elem() == verifC15ValueT) {
			return true
		}
	}
	return false
}

func verifC15Optional(t reflect.Type) []string {
	var out []string
	for i := 0; i < t.NumField(); i++ {
		if t.Field(i).Type == verifC15ValueT {
			out = append(out, t.Field(i).Name)
		}
	}
	return out
}

func TestVerifC15(t *testing.T) {
	cases, fails := 0, 0
	only := os.Getenv("VERIF_OBLIGATION")
	fail := func(f string, a ...interface{}) {
		fails++
		if fails <= 500 {
			fmt.Printf("REPLAY-FAIL %s\n", fmt.Sprintf(f, a...))
		}
	}
	for _, proto := range verifC15Types {
		st := reflect.TypeOf(proto).Elem()
		if only != "" && !strings.Contains(only, st.Name()) && strings.Contains(only, "Inst") {
			// a replay for one type only
		}
		opts := verifC15Optional(st)
		// variants: all slots set with 0,1,2,3 elements per list; each single value field nil
		type variant struct {
			nelem int
			skip  map[string]bool
		}
		vs := []variant{{0, nil}, {1, nil}, {2, nil}, {3, nil}}
		for _, o := range opts {
			vs = append(vs, variant{2, map[string]bool{o: true}})
		}
		for _, vr := range vs {
			cases++
			obj := reflect.New(st)
			f := &verifC15Filler{}
			want := f.fill(obj.Elem(), vr.nelem, vr.skip, "")
			desc := fmt.Sprintf("%s nelem=%d nil=%v", st.Name(), vr.nelem, vr.skip)
			if cases%97 == 5 {
				fmt.Printf("REPLAY-SAMPLE %s: %d declared slots\n", desc, len(want))
			}
			var got []*value.Value
			func() {
				defer func() {
					if e := recover(); e != nil {
						// a nil mandatory operand may legitimately panic in Operands (type assertion); not a slot question
						got = nil
						want = nil
					}
				}()
				got = obj.Interface().(value.User).Operands()
			}()
			// liveness: every returned slot is the address of a declared slot
			wantSet := map[*value.Value]int{}
			for i, w := range want {
				wantSet[w] = i
			}
			// include nil-skipped fields as admissible addresses
			all := (&verifC15Filler{}).addresses(obj.Elem())
			allSet := map[*value.Value]bool{}
			for _, a := range all {
				allSet[a] = true
			}
			seen := map[*value.Value]bool{}
			for k, g := range got {
				if !allSet[g] {
					fail("liveness %s: Operands()[%d] is not the address of an operand field (a copy?)", desc, k)
				}
				if seen[g] {
					fail("duplicate %s: Operands()[%d] repeated", desc, k)
				}
				seen[g] = true
			}
			// completeness: every non-nil declared slot is returned
			for i, w := range want {
				if !seen[w] {
					fail("complete %s: declared slot #%d (%s) missing from Operands()", desc, i, verifC15SlotName(obj.Elem(), w))
				}
			}
			// writing through a slot changes exactly that operand
			for _, g := range got {
				if !allSet[g] {
					continue
				}
				nv := value.Value(constant.NewInt(types.I64, 4242))
				old := *g
				*g = nv
				if verifC15Read(obj.Elem(), g) != nv {
					fail("write-through %s", desc)
				}
				*g = old
			}
			// successors
			if term, ok := obj.Interface().(Terminator); ok && vr.skip == nil {
				verifC15Succs(term, obj.Elem(), desc, fail)
				// a second object of the same shape: branch targets that coincide, and targets in the printed text
				obj2 := reflect.New(st)
				(&verifC15Filler{}).fill(obj2.Elem(), vr.nelem, vr.skip, "")
				verifC15SuccsShared(obj2.Interface().(Terminator), obj2.Elem(), desc, fail)
			}
		}
	}
	// substituting a value through the slots of its users leaves no use behind: arguments carrying parameter
	// attributes are stored as *ir.Arg wrappers around the value
	cases++
	func() {
		defer func() {
			if e := recover(); e != nil {
				fail("substitute call argument: panic %v", e)
			}
		}()
		x := NewParam("x", types.I32)
		y := NewParam("y", types.I32)
		callee := NewFunc("g", types.Void, NewParam("", types.I32), NewParam("", types.I32))
		call := NewCall(callee, x, NewArg(x, enum.ParamAttrNoUndef))
		replaced := 0
		for _, slot := range call.Operands() {
			if *slot == value.Value(x) {
				*slot = y
				replaced++
			}
		}
		if text := call.LLString(); strings.Contains(text, "%x") {
			fail("substitute: after replacing %%x by %%y through every operand slot of the call (%d slots replaced) a use of %%x is left behind (an argument with parameter attributes is an *ir.Arg wrapper; the slot holds the wrapper): %s", replaced, text)
		}
	}()
	fmt.Printf("REPLAY-CASES %d\n", cases)
	if fails > 0 {
		t.Fatalf("%d failures", fails)
	}
}

// addresses lists the addresses of all slots present in the (already filled) object.
func (f *verifC15Filler) addresses(v reflect.Value) []*value.Value {
	var out []*value.Value
	t := v.Type()
	for i := 0; i < t.NumField(); i++ {
		fd, fv := t.Field(i), v.Field(i)
		switch {
		case fd.Type == verifC15ValueT:
			out = append(out, fv.Addr().Interface().(*value.Value))
		case fd.Type.Kind() == reflect.Slice && fd.Type.Elem() == verifC15ValueT:
			for k := 0; k < fv.Len(); k++ {
				out = append(out, fv.Index(k).Addr().Interface().(*value.Value))
			}
		case fd.Type.Kind() == reflect.Slice && fd.Type.Elem().Kind() == reflect.Ptr && fd.Type.Elem().Elem().Kind() == reflect.Struct && fd.Type.Elem().Elem().PkgPath() == t.PkgPath() && fd.Name != "Successors":
			for k := 0; k < fv.Len(); k++ {
				if !fv.Index(k).IsNil() {
					out = append(out, f.addresses(fv.Index(k).Elem())...)
				}
			}
		}
	}
	return out
}

func verifC15SlotName(v reflect.Value, p *value.Value) string {
	t := v.Type()
	for i := 0; i < t.NumField(); i++ {
		fd, fv := t.Field(i), v.Field(i)
		switch {
		case fd.Type == verifC15ValueT:
			if fv.Addr().Interface().(*value.Value) == p {
				return fd.Name
			}
		case fd.Type.Kind() == reflect.Slice && fd.Type.Elem() == verifC15ValueT:
			for k := 0; k < fv.Len(); k++ {
				if fv.Index(k).Addr().Interface().(*value.Value) == p {
					return fmt.Sprintf("%s[%d]", fd.Name, k)
				}
			}
		case fd.Type.Kind() == reflect.Slice && fd.Type.Elem().Kind() == reflect.Ptr && fd.Type.Elem().Elem().Kind() == reflect.Struct && fd.Name != "Successors":
			for k := 0; k < fv.Len(); k++ {
				if !fv.Index(k).IsNil() {
					if n := verifC15SlotName(fv.Index(k).Elem(), p); n != "" {
						return fmt.Sprintf("%s[%d].%s", fd.Name, k, n)
					}
				}
			}
		}
	}
	return ""
}

func verifC15Read(v reflect.Value, p *value.Value) value.Value { return *p }

// verifC15Succs: Succs() is exactly the block-typed targets in operand order, also after a target is rewritten through its slot.
func verifC15Succs(term Terminator, v reflect.Value, desc string, fail func(string, ...interface{})) {
	check := func(phase string) {
		var want []*Block
		for _, op := range term.Operands() {
			n := verifC15SlotName(v, op)
			if i := strings.LastIndex(n, "."); i >= 0 {
				n = n[i+1:]
			}
			if i := strings.Index(n, "["); i >= 0 {
				n = n[:i]
			}
			if !verifC15IsSucc(n) {
				continue
			}
			if b, ok := (*op).(*Block); ok {
				want = append(want, b)
			}
		}
		var got []*Block
		func() {
			defer func() { recover() }()
			got = term.Succs()
		}()
		// the set of successor targets: every branch target field holding a block
		if len(got) != len(want) {
			fail("succs %s (%s): Succs() has %d blocks, operands hold %d block targets", desc, phase, len(got), len(want))
			return
		}
		for i := range got {
			if got[i] != want[i] {
				fail("succs %s (%s): Succs()[%d] differs from the block target in the operand slot", desc, phase, i)
				return
			}
		}
	}
	// only terminators whose block operands are all branch targets
	switch term.(type) {
	case *TermRet, *TermResume, *TermUnreachable:
		return
	}
	check("fresh")
	// rewrite the first block-typed slot
	for _, op := range term.Operands() {
		n := verifC15SlotName(v, op)
		if _, ok := (*op).(*Block); ok && strings.Contains(n, "Target") {
			*op = NewBlock("replacement")
			break
		}
	}
	check("after-slot-write")
}


// verifC15SuccsShared: several branch targets may be the same block -- Succs() still lists one entry per target
// slot, in slot order --, and the printed terminator shows what the target slots hold (also after Succs() has
// been called and a target has been rewritten through its slot).
func verifC15SuccsShared(term Terminator, v reflect.Value, desc string, fail func(string, ...interface{})) {
	switch term.(type) {
	case *TermRet, *TermResume, *TermUnreachable:
		return
	}
	shared := NewBlock("shared_target")
	n := 0
	var first *value.Value
	for _, op := range term.Operands() {
		name := verifC15SlotName(v, op)
		if i := strings.LastIndex(name, "."); i >= 0 {
			name = name[i+1:]
		}
		if i := strings.Index(name, "["); i >= 0 {
			name = name[:i]
		}
		if !verifC15IsSucc(name) {
			continue
		}
		if _, ok := (*op).(*Block); ok {
			*op = shared
			n++
			if first == nil {
				first = op
			}
		}
	}
	if n == 0 {
		return
	}
	var got []*Block
	func() {
		defer func() { recover() }()
		got = term.Succs()
	}()
	if len(got) != n {
		fail("succs %s (shared-targets): %d target slots hold one and the same block, Succs() lists %d entries", desc, n, len(got))
		return
	}
	for i := range got {
		if got[i] != shared {
			fail("succs %s (shared-targets): Succs()[%d] is not the block in the target slots", desc, i)
			return
		}
	}
	// the printed text shows the target slots
	text := func() (s string, ok bool) {
		defer func() {
			if recover() != nil {
				ok = false
			}
		}()
		return term.LLString(), true
	}
	if _, ok := text(); !ok {
		return
	}
	*first = NewBlock("rewritten_target")
	if s, ok := text(); ok && !strings.Contains(s, "%rewritten_target") {
		fail("printed %s: a branch target rewritten through its operand slot does not show in LLString(): %s", desc, s)
	}
}
