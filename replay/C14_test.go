package ir

// Bounded history check for property C14 (go test -overlay): random
// construction/editing histories are run twice, once with observer calls
// interleaved at every position and once without; the final printed module
// must be identical and printing twice must be stable.

import (
	"fmt"
	"math/rand"
	"os"
	"strconv"
	"strings"
	"testing"

	"github.com/llir/llvm/ir/constant"
	"github.com/llir/llvm/ir/types"
	"github.com/llir/llvm/ir/value"
)

type verifC14World struct {
	m      *Module
	funcs  []*Func
	vals   []value.Value // i32 values usable as operands
	blocks []*Block
}

func (w *verifC14World) observe(r *rand.Rand, mask int) {
	// printing needs every block to be terminated; other observers are always legal
	complete := true
	for _, b := range w.blocks {
		if b.Term == nil {
			complete = false
		}
	}
	if mask&1 != 0 && complete {
		_ = w.m.String()
	}
	for _, f := range w.funcs {
		if mask&2 != 0 {
			if complete {
				_ = f.LLString()
			}
			_ = f.Type()
			_ = f.Ident()
		}
		for _, b := range f.Blocks {
			if mask&4 != 0 {
				if b.Term != nil {
					_ = b.LLString()
				}
				_ = b.Ident()
			}
			for _, inst := range b.Insts {
				if mask&8 != 0 {
					if v, ok := inst.(value.Value); ok {
						_ = v.Type()
						_ = v.Ident()
						_ = v.String()
					}
					if u, ok := inst.(value.User); ok {
						_ = u.Operands()
					}
					_ = inst.LLString()
				}
			}
			if b.Term != nil && mask&16 != 0 {
				_ = b.Term.Succs()
				_ = b.Term.Operands()
				_ = b.Term.LLString()
			}
		}
	}
	for _, g := range w.m.Globals {
		if mask&32 != 0 {
			_ = g.Ident()
			_ = g.Type()
			_ = g.LLString()
		}
	}
}

// step applies edit number k (deterministic given the random source) to the world.
func (w *verifC14World) step(r *rand.Rand) string {
	name := func() string {
		if r.Intn(2) == 0 {
			return ""
		}
		return fmt.Sprintf("n%d", r.Intn(1000))
	}
	pick := func() value.Value {
		if len(w.vals) == 0 {
			return constant.NewInt(types.I32, int64(r.Intn(9)))
		}
		if r.Intn(4) == 0 {
			return constant.NewInt(types.I32, int64(r.Intn(9)))
		}
		return w.vals[r.Intn(len(w.vals))]
	}
	switch op := r.Intn(15); {
	case op == 12:
		// a global initialised with the address of a block of an earlier function (the block's ID is printed with
		// the global, before the function itself)
		var cands []*Func
		for _, f := range w.funcs {
			if len(f.Blocks) >= 2 {
				cands = append(cands, f)
			}
		}
		if len(cands) == 0 {
			return "skip"
		}
		f := cands[r.Intn(len(cands))]
		w.m.NewGlobalDef(name(), constant.NewBlockAddress(f, f.Blocks[1+r.Intn(len(f.Blocks)-1)]))
		return "global blockaddress"
	case op == 13:
		// terminate the current block with an indirectbr over the blocks of the function
		b := w.blocks[len(w.blocks)-1]
		f := w.funcs[len(w.funcs)-1]
		if b.Term != nil || len(f.Blocks) < 2 {
			return "skip"
		}
		addr := constant.NewBlockAddress(f, f.Blocks[0])
		b.NewIndirectBr(addr, f.Blocks[0], f.Blocks[len(f.Blocks)-1])
		return "indirectbr"
	case op == 14:
		// retarget an indirectbr through its operand slots
		for _, f := range w.funcs {
			for _, b := range f.Blocks {
				if ib, ok := b.Term.(*TermIndirectBr); ok && len(ib.ValidTargets) > 0 {
					ib.ValidTargets[r.Intn(len(ib.ValidTargets))] = f.Blocks[r.Intn(len(f.Blocks))]
					return "retarget indirectbr"
				}
			}
		}
		return "skip"
	case op == 10:
		// edit a field of a global after construction (its pointer type is computed at construction)
		if len(w.m.Globals) == 0 {
			return "skip"
		}
		w.m.Globals[r.Intn(len(w.m.Globals))].AddrSpace = types.AddrSpace(r.Intn(3))
		return "set addrspace"
	case op == 11:
		// use a global as an operand (its type is printed with the use)
		if len(w.m.Globals) == 0 || len(w.blocks) == 0 {
			return "skip"
		}
		b := w.blocks[len(w.blocks)-1]
		if b.Term != nil {
			return "skip"
		}
		x := b.NewLoad(types.I32, w.m.Globals[r.Intn(len(w.m.Globals))])
		x.SetName(name())
		w.vals = append(w.vals, x)
		return "load global"
	case op == 0 || len(w.funcs) == 0:
		n := name()
		if n == "" && len(w.funcs) > 0 {
			n = fmt.Sprintf("f%d", len(w.funcs))
		}
		f := w.m.NewFunc(n, types.I32, NewParam(name(), types.I32), NewParam(name(), types.I32))
		w.funcs = append(w.funcs, f)
		b := f.NewBlock(name())
		w.blocks = append(w.blocks, b)
		w.vals = nil
		for _, p := range f.Params {
			w.vals = append(w.vals, p)
		}
		return "new func"
	case op == 1:
		g := w.m.NewGlobalDef(name(), constant.NewInt(types.I32, int64(r.Intn(5))))
		_ = g
		return "new global"
	case op <= 4:
		b := w.blocks[len(w.blocks)-1]
		if b.Term != nil {
			return "skip"
		}
		x := b.NewAdd(pick(), pick())
		x.SetName(name())
		w.vals = append(w.vals, x)
		return "append add"
	case op == 5:
		b := w.blocks[len(w.blocks)-1]
		if b.Term != nil {
			return "skip"
		}
		c := b.NewICmp(1, pick(), pick())
		c.SetName(name())
		return "append icmp"
	case op == 6:
		b := w.blocks[len(w.blocks)-1]
		if b.Term == nil {
			b.NewRet(pick())
			return "set ret"
		}
		b.Term = NewRet(pick())
		return "replace ret"
	case op == 7:
		// rename a value
		if len(w.vals) == 0 {
			return "skip"
		}
		if n, ok := w.vals[r.Intn(len(w.vals))].(value.Named); ok {
			n.SetName(fmt.Sprintf("r%d", r.Intn(1000)))
		}
		return "rename"
	case op == 8:
		// named instruction inserted in front (unnamed insertion after a print is the known stale-ID finding)
		b := w.blocks[len(w.blocks)-1]
		x := NewMul(pick(), pick())
		x.SetName(fmt.Sprintf("m%d", r.Intn(1000)))
		b.Insts = append([]Instruction{x}, b.Insts...)
		return "insert named front"
	default:
		b := w.blocks[len(w.blocks)-1]
		f := w.funcs[len(w.funcs)-1]
		if b.Term == nil {
			nb := f.NewBlock(name())
			b.NewBr(nb)
			w.blocks = append(w.blocks, nb)
			return "new block"
		}
		return "skip"
	}
}

func verifC14Run(seed int64, steps int, observers bool) (out string, err interface{}) {
	return verifC14RunMask(seed, steps, observers, 63)
}

// verifC14RunMask: as verifC14Run, with the observer classes restricted to those in keep (bit 0: module print, bit 1:
// function print and queries, bits 2..5: block, instruction, terminator and global level)
func verifC14RunMask(seed int64, steps int, observers bool, keep int) (out string, err interface{}) {
	defer func() {
		if e := recover(); e != nil {
			err = e
		}
	}()
	r := rand.New(rand.NewSource(seed))
	ro := rand.New(rand.NewSource(seed + 7))
	w := &verifC14World{m: NewModule()}
	for i := 0; i < steps; i++ {
		w.step(r)
		mask := ro.Intn(64) & keep
		if observers {
			w.observe(ro, mask)
		}
	}
	// close open blocks so that the module prints
	for _, b := range w.blocks {
		if b.Term == nil {
			b.NewRet(constant.NewInt(types.I32, 0))
		}
	}
	s1 := w.m.String()
	s2 := w.m.String()
	if s1 != s2 {
		return s1, "printing twice in a row differs"
	}
	return s1, nil
}

func TestVerifC14(t *testing.T) {
	bound, _ := strconv.Atoi(os.Getenv("VERIF_BOUND"))
	if bound <= 0 {
		bound = 400
	}
	seed, _ := strconv.ParseInt(os.Getenv("VERIF_SEED"), 10, 64)
	cases, fails := 0, 0
	for h := 0; h < bound; h++ {
		s := seed*1000003 + int64(h)
		steps := 3 + h%14
		cases++
		plain, e1 := verifC14Run(s, steps, false)
		obs, e2 := verifC14Run(s, steps, true)
		switch {
		case e1 != nil:
			// the history itself does not print (independent of observers): not a C14 question
			continue
		case e2 != nil:
			fails++
			fmt.Printf("REPLAY-FAIL history seed=%d steps=%d: with observers: %v\n", s, steps, strings.Split(fmt.Sprint(e2), "\n")[0])
		case plain != obs:
			fails++
			fmt.Printf("REPLAY-FAIL history seed=%d steps=%d: final print differs when observers are interleaved\n", s, steps)
		}
		// observers below the level of a function (block, instruction, terminator and global printers and queries, none
		// of which numbers anything) must be invisible in every history -- the known finding about stale IDs concerns
		// the module and function printers only, and this run keeps it from hiding a regression in the others
		if e1 == nil {
			cases++
			quiet, e3 := verifC14RunMask(s, steps, true, 60)
			switch {
			case e3 != nil:
				fails++
				fmt.Printf("REPLAY-FAIL history seed=%d steps=%d: observers below function level only: %v\n", s, steps, strings.Split(fmt.Sprint(e3), "\n")[0])
			case quiet != plain:
				fails++
				fmt.Printf("REPLAY-FAIL history seed=%d steps=%d: observers below function level only: final print differs\n", s, steps)
			}
		}
		if h == 3 {
			fmt.Printf("REPLAY-SAMPLE history seed=%d steps=%d prints %d bytes\n", s, steps, len(plain))
		}
	}
	// directed histories (the random ones reach these shapes only rarely): the final print with and without
	// observer calls in between, and the first print against the second
	for k, name := range []string{"blockaddress of a later unnamed block in a global initializer", "indirectbr retargeted through its operand slot", "address space of a global set after construction, global used as operand", "blockaddress of a later function's unnamed block inside a function body, module without globals"} {
		cases++
		run := func(observers bool) (out string, err interface{}) {
			defer func() {
				if e := recover(); e != nil {
					err = e
				}
			}()
			m := NewModule()
			f := m.NewFunc("f", types.I32)
			b0 := f.NewBlock("")
			b1 := f.NewBlock("")
			b2 := f.NewBlock("")
			obs := func() {
				if observers {
					_ = m.String()
					_ = f.LLString()
					for _, b := range f.Blocks {
						if b.Term != nil {
							_ = b.Term.Succs()
							_ = b.Term.LLString()
						}
					}
				}
			}
			switch k {
			case 0:
				b0.NewBr(b1)
				b1.NewBr(b2)
				b2.NewRet(constant.NewInt(types.I32, 0))
				m.NewGlobalDef("g", constant.NewBlockAddress(f, b2))
				obs()
			case 1:
				ib := b0.NewIndirectBr(constant.NewBlockAddress(f, b1), b1, b2)
				b1.NewRet(constant.NewInt(types.I32, 1))
				b2.NewRet(constant.NewInt(types.I32, 2))
				obs()
				*ib.Operands()[1] = b2
				obs()
			case 3:
				h := m.NewFunc("h", types.I32)
				hb0 := h.NewBlock("")
				hb1 := h.NewBlock("")
				hb0.NewBr(hb1)
				hb1.NewRet(constant.NewInt(types.I32, 0))
				b0.NewBr(b1)
				b1.NewBr(b2)
				b2.NewRet(constant.NewPtrToInt(constant.NewBlockAddress(h, hb1), types.I32))
				obs()
			case 2:
				g := m.NewGlobalDef("", constant.NewInt(types.I32, 7))
				x := b0.NewLoad(types.I32, g)
				b0.NewRet(x)
				b1.NewRet(constant.NewInt(types.I32, 1))
				b2.NewRet(constant.NewInt(types.I32, 2))
				obs()
				g.AddrSpace = 3
				obs()
			}
			first := m.String()
			if second := m.String(); second != first {
				return first, fmt.Errorf("printing twice gives different text")
			}
			return first, nil
		}
		plain, e1 := run(false)
		withObs, e2 := run(true)
		switch {
		case e1 != nil:
			fails++
			fmt.Printf("REPLAY-FAIL directed history %q: %v\n", name, e1)
		case e2 != nil:
			fails++
			fmt.Printf("REPLAY-FAIL directed history %q: with observers: %v\n", name, e2)
		case plain != withObs:
			fails++
			fmt.Printf("REPLAY-FAIL directed history %q: final print differs when observers are interleaved\n", name)
		}
	}
	fmt.Printf("REPLAY-CASES %d\n", cases)
	if fails > 0 {
		t.Fatalf("%d failures", fails)
	}
}
