package asm

// Witness-search harness for property C11 through the parser (go test -overlay): the
// token the encoders of internal/enc print for a name is read back by the library's
// own parser as that very name -- never as an unnamed ID, never as another name --
// for global, comdat, label, parameter and instruction identifiers (definition and use), and printing the
// parsed module spells the same tokens again.

import (
	"fmt"
	"os"
	"strconv"
	"strings"
	"testing"

	"github.com/llir/llvm/internal/enc"
	"github.com/llir/llvm/ir"
)

func TestVerifC11Asm(t *testing.T) {
	bound, _ := strconv.Atoi(os.Getenv("VERIF_BOUND"))
	if bound <= 0 {
		bound = 2
	}
	alpha := []byte{'a', 'Z', '1', '0', '/', '"', '\\', ' ', 0xFF, '$', '-', '.', '_', 0x01, '5', 'C', ':'}
	names := []string{}
	prev := []string{""}
	for l := 1; l <= bound; l++ {
		var cur []string
		for _, p := range prev {
			for _, c := range alpha {
				cur = append(cur, p+string([]byte{c}))
			}
		}
		names = append(names, cur...)
		prev = cur
	}
	names = append(names, "-0", "-00", "-000", "-1", "-01", "-0a", "--0", "-", "+0", "0-", "18446744073709551615", "-9223372036854775808", "9223372036854775808", "42", "007", `a\5Cb`, `\\`, "世界", "-0.0", "0x10", "1e3")
	cases, fails := 0, 0
	fail := func(f string, a ...interface{}) {
		fails++
		if fails <= 20 {
			fmt.Printf("REPLAY-FAIL %s\n", fmt.Sprintf(f, a...))
		}
	}
	one := func(n string) {
		defer func() {
			if e := recover(); e != nil {
				fail("name %q: panic %v", n, e)
			}
		}()
		g, c, l, p := enc.GlobalName(n), enc.ComdatName(n), enc.LabelName(n), enc.LocalName(n)
		src := fmt.Sprintf("%s = comdat any\n%s = global i32 0, comdat(%s)\ndefine void @verif_f() {\n%s\n\tret void\n}\ndefine void @verif_g(i32 %s) {\n\tret void\n}\ndefine i32 @verif_h() {\n\t%s = add i32 1, 2\n\tret i32 %s\n}\n", c, g, c, l, p, p, p)
		src2 := ""
		for round, text := range []string{src, ""} {
			if round == 1 {
				text = src2
			}
			m, err := ParseString("x.ll", text)
			if err != nil {
				fail("name %q (round %d): printed tokens %s %s %s %s do not parse: %v", n, round, g, c, l, p, err)
				return
			}
			if len(m.Globals) != 1 || len(m.ComdatDefs) != 1 || len(m.Funcs) != 3 || len(m.Funcs[0].Blocks) != 1 || len(m.Funcs[1].Params) != 1 {
				fail("name %q (round %d): unexpected module shape", n, round)
				return
			}
			if x := m.Globals[0]; x.GlobalName != n || x.IsUnnamed() {
				fail("global name %q printed as %s is read back as name %q id %d (round %d)", n, g, x.GlobalName, x.GlobalID, round)
			}
			if x := m.ComdatDefs[0]; x.Name != n {
				fail("comdat name %q printed as %s is read back as %q (round %d)", n, c, x.Name, round)
			}
			if x := m.Globals[0].Comdat; x == nil || x != m.ComdatDefs[0] {
				fail("comdat reference %s of name %q is not read back as that comdat (round %d)", c, n, round)
			}
			if x := m.Funcs[0].Blocks[0]; x.LocalName != n || x.IsUnnamed() {
				fail("label name %q printed as %s is read back as name %q id %d (round %d)", n, l, x.LocalName, x.LocalID, round)
			}
			if x := m.Funcs[1].Params[0]; x.LocalName != n || x.IsUnnamed() {
				fail("local name %q printed as %s is read back as name %q id %d (round %d)", n, p, x.LocalName, x.LocalID, round)
			}
			if f := m.Funcs[2]; len(f.Blocks) != 1 || len(f.Blocks[0].Insts) != 1 {
				fail("name %q (round %d): unexpected shape of @verif_h", n, round)
			} else if x, ok := f.Blocks[0].Insts[0].(*ir.InstAdd); !ok || x.LocalName != n || x.IsUnnamed() {
				fail("instruction name %q printed as %s is not read back as that name (round %d)", n, p, round)
			} else if r, ok := f.Blocks[0].Term.(*ir.TermRet); !ok || r.X != x {
				fail("use of instruction %s (name %q) is not bound to the instruction (round %d)", p, n, round)
			}
			// round 0: the module the library prints (comdat shorthand and all) is parsed again in round 1
			src2 = m.String()
			for _, tok := range []string{g + " = ", c + " = comdat", "\n" + l + "\n", "i32 " + p + ")"} {
				if !strings.Contains(src2, tok) {
					fail("name %q (round %d): the printed module does not spell %q again:\n%s", n, round, tok, src2)
				}
			}
		}
	}
	for _, n := range names {
		cases++
		one(n)
	}
	fmt.Printf("REPLAY-SAMPLE %d names, e.g. %q -> %s\n", len(names), names[len(names)/2], enc.GlobalName(names[len(names)/2]))
	fmt.Printf("REPLAY-CASES %d\n", cases)
	if fails > 0 {
		t.Fatalf("%d failures", fails)
	}
}
