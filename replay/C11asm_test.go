package asm

// Witness-search harness for property C11 through the parser (go test -overlay): the
// token the encoders of internal/enc print for a name is read back by the library's
// own parser as that very name -- never as an unnamed ID, never as another name --
// for global, comdat, label, parameter and instruction identifiers (definition and use), and printing the
// parsed module spells the same tokens again.

import (
	"os/exec"
	"fmt"
	"os"
	"strconv"
	"strings"
	"testing"

	"github.com/llir/llvm/internal/enc"
	"github.com/llir/llvm/ir"
	"github.com/llir/llvm/ir/constant"
	"github.com/llir/llvm/ir/enum"
	"github.com/llir/llvm/ir/types"
)

func TestVerifC11Asm(t *testing.T) {
	bound, _ := strconv.Atoi(os.Getenv("VERIF_BOUND"))
	if bound <= 0 {
		bound = 2
	}
	alpha := []byte{'a', 'Z', '1', '0', '/', '"', '\\', ' ', 0xFF, '$', '-', '.', '_', 0x01, '5', 'C', ':'}
	names := []string{}
	prev := []string{""}
	for l := 1; l <= bound; l++ {
		var cur []string
		for _, p := range prev {
			for _, c := range alpha {
				cur = append(cur, p+string([]byte{c}))
			}
		}
		names = append(names, cur...)
		prev = cur
	}
	names = append(names, "-0", "-00", "-000", "-1", "-01", "-0a", "--0", "-", "+0", "0-", "18446744073709551615", "-9223372036854775808", "9223372036854775808", "42", "007", `a\5Cb`, `\\`, "世界", "-0.0", "0x10", "1e3")
	cases, fails := 0, 0
	fail := func(f string, a ...interface{}) {
		fails++
		if fails <= 20 {
			fmt.Printf("REPLAY-FAIL %s\n", fmt.Sprintf(f, a...))
		}
	}
	one := func(n string) {
		defer func() {
			if e := recover(); e != nil {
				fail("name %q: panic %v", n, e)
			}
		}()
		g, c, l, p := enc.GlobalName(n), enc.ComdatName(n), enc.LabelName(n), enc.LocalName(n)
		src := fmt.Sprintf("%s = comdat any\n%s = global i32 0, comdat(%s)\ndefine void @verif_f() {\n%s\n\tret void\n}\ndefine void @verif_g(i32 %s) {\n\tret void\n}\ndefine i32 @verif_h() {\n\t%s = add i32 1, 2\n\tret i32 %s\n}\n", c, g, c, l, p, p, p)
		src2 := ""
		for round, text := range []string{src, ""} {
			if round == 1 {
				text = src2
			}
			m, err := ParseString("x.ll", text)
			if err != nil {
				fail("name %q (round %d): printed tokens %s %s %s %s do not parse: %v", n, round, g, c, l, p, err)
				return
			}
			if len(m.Globals) != 1 || len(m.ComdatDefs) != 1 || len(m.Funcs) != 3 || len(m.Funcs[0].Blocks) != 1 || len(m.Funcs[1].Params) != 1 {
				fail("name %q (round %d): unexpected module shape", n, round)
				return
			}
			if x := m.Globals[0]; x.GlobalName != n || x.IsUnnamed() {
				fail("global name %q printed as %s is read back as name %q id %d (round %d)", n, g, x.GlobalName, x.GlobalID, round)
			}
			if x := m.ComdatDefs[0]; x.Name != n {
				fail("comdat name %q printed as %s is read back as %q (round %d)", n, c, x.Name, round)
			}
			if x := m.Globals[0].Comdat; x == nil || x != m.ComdatDefs[0] {
				fail("comdat reference %s of name %q is not read back as that comdat (round %d)", c, n, round)
			}
			if x := m.Funcs[0].Blocks[0]; x.LocalName != n || x.IsUnnamed() {
				fail("label name %q printed as %s is read back as name %q id %d (round %d)", n, l, x.LocalName, x.LocalID, round)
			}
			if x := m.Funcs[1].Params[0]; x.LocalName != n || x.IsUnnamed() {
				fail("local name %q printed as %s is read back as name %q id %d (round %d)", n, p, x.LocalName, x.LocalID, round)
			}
			if f := m.Funcs[2]; len(f.Blocks) != 1 || len(f.Blocks[0].Insts) != 1 {
				fail("name %q (round %d): unexpected shape of @verif_h", n, round)
			} else if x, ok := f.Blocks[0].Insts[0].(*ir.InstAdd); !ok || x.LocalName != n || x.IsUnnamed() {
				fail("instruction name %q printed as %s is not read back as that name (round %d)", n, p, round)
			} else if r, ok := f.Blocks[0].Term.(*ir.TermRet); !ok || r.X != x {
				fail("use of instruction %s (name %q) is not bound to the instruction (round %d)", p, n, round)
			}
			// round 0: the module the library prints (comdat shorthand and all) is parsed again in round 1
			src2 = m.String()
			for _, tok := range []string{g + " = ", c + " = comdat", "\n" + l + "\n", "i32 " + p + ")"} {
				if !strings.Contains(src2, tok) {
					fail("name %q (round %d): the printed module does not spell %q again:\n%s", n, round, tok, src2)
				}
			}
		}
	}
	for _, n := range names {
		cases++
		one(n)
	}
	// type names (an all-digit name without leading zeros is a type ID by the library's data model), and quoted
	// strings in the positions package ir prints through its own quote helper
	for _, n := range names {
		cases++
		func() {
			defer func() {
				if e := recover(); e != nil {
					fail("type name / string %q: panic %v", n, e)
				}
			}()
			m := ir.NewModule()
			td := m.NewTypeDef(n, types.NewStruct(types.I32))
			g := m.NewGlobalDef("g", constant.NewZeroInitializer(td))
			g.Section = n
			g.Partition = n
			f := m.NewFunc("f", types.Void)
			f.NewBlock("").NewRet(nil)
			f.GC = n
			f.Section = n
			f.FuncAttrs = append(f.FuncAttrs, ir.AttrString(n), ir.AttrPair{Key: n, Value: n})
			f.Partition = n
			al := m.NewAlias("al", g)
			al.Partition = n
			rs := m.NewFunc("rs", types.NewPointer(f.Sig))
			rs.NewBlock("").NewRet(f)
			ifn := m.NewIFunc("ifn", rs)
			ifn.Partition = n
			m.SourceFilename = n
			m.ModuleAsms = append(m.ModuleAsms, n)
			text := m.String()
			m2, err := ParseString("s.ll", text)
			if err != nil {
				fail("type name / string %q: the printed module does not parse: %v\n%s", n, err, text)
				return
			}
			if len(m2.TypeDefs) != 1 || m2.TypeDefs[0].Name() != n {
				fail("type name %q printed as %s is read back as %q", n, enc.TypeName(n), m2.TypeDefs[0].Name())
			}
			g2, f2 := m2.Globals[0], m2.Funcs[0]
			for what, got := range map[string]string{"section of a global": g2.Section, "partition": g2.Partition, "gc": f2.GC, "section of a function": f2.Section, "source_filename": m2.SourceFilename, "module asm": m2.ModuleAsms[0]} {
				if got != n {
					fail("string %q printed as %s of the module is read back as %q", n, what, got)
				}
			}
			if len(m2.Aliases) != 1 || m2.Aliases[0].Partition != n {
				fail("string %q printed as partition of an alias is not read back", n)
			}
			if len(m2.IFuncs) != 1 || m2.IFuncs[0].Partition != n {
				fail("string %q printed as partition of an ifunc is not read back", n)
			}
			if f2.Partition != n {
				fail("string %q printed as partition of a function is read back as %q", n, f2.Partition)
			}
			okS, okP := false, false
			for _, a := range f2.FuncAttrs {
				switch a := a.(type) {
				case ir.AttrString:
					okS = okS || string(a) == n
				case ir.AttrPair:
					okP = okP || (a.Key == n && a.Value == n)
				}
			}
			if !okS || !okP {
				fail("string %q printed as attribute string / pair is not read back (%v)", n, f2.FuncAttrs)
			}
			if msg := verifC11LLVMAs(text); msg != "" {
				fail("type name / string %q: llvm-as rejects the printed module: %s\n%s", n, msg, text)
			}
		}()
	}
	// comdat shorthand: `comdat` without a name stands for the comdat named exactly as the global
	for _, tc := range []struct{ gname, cname string }{{"42", "\"42\""}, {"", "0"}, {"a", "a"}, {"42", "42"}, {"007", "7"}, {"7", "007"}} {
		cases++
		func() {
			defer func() {
				if e := recover(); e != nil {
					fail("comdat %q of global %q: panic %v", tc.cname, tc.gname, e)
				}
			}()
			m := ir.NewModule()
			c := &ir.ComdatDef{Name: tc.cname, Kind: enum.SelectionKindAny}
			m.ComdatDefs = append(m.ComdatDefs, c)
			g := m.NewGlobalDef(tc.gname, constant.NewInt(types.I32, 1))
			g.Comdat = c
			text := m.String()
			m2, err := ParseString("c.ll", text)
			if err != nil {
				fail("comdat %q of global %q: the printed module does not parse: %v\n%s", tc.cname, tc.gname, err, text)
				return
			}
			if m2.Globals[0].Comdat == nil || m2.Globals[0].Comdat.Name != tc.cname {
				fail("comdat %q of global %q is read back as %v\n%s", tc.cname, tc.gname, m2.Globals[0].Comdat, text)
			}
			if msg := verifC11LLVMAs(text); msg != "" {
				fail("comdat %q of global %q: llvm-as rejects the printed module: %s\n%s", tc.cname, tc.gname, msg, text)
			}
		}()
	}
	fmt.Printf("REPLAY-SAMPLE %d names, e.g. %q -> %s\n", len(names), names[len(names)/2], enc.GlobalName(names[len(names)/2]))
	fmt.Printf("REPLAY-CASES %d\n", cases)
	if fails > 0 {
		t.Fatalf("%d failures", fails)
	}
}


// verifC11LLVMAs: LLVM's own lexer and parser accept the text ("" when accepted or when no llvm-as is installed).
func verifC11LLVMAs(text string) string {
	bin := ""
	for _, c := range []string{"llvm-as-14", "llvm-as"} {
		if p, err := exec.LookPath(c); err == nil {
			bin = p
			break
		}
	}
	if bin == "" {
		return ""
	}
	cmd := exec.Command(bin, "-disable-verify", "-o", os.DevNull, "-")
	cmd.Stdin = strings.NewReader(text)
	out, err := cmd.CombinedOutput()
	if err != nil {
		return strings.TrimSpace(strings.Split(string(out), "\n")[0])
	}
	return ""
}
