package ir

// Bounded stand-in for Module.WriteTo (property C19, go test -overlay):
// writers that fail at every byte offset, short writes, arbitrary chunking.

import (
	"errors"
	"fmt"
	"os"
	"strconv"
	"strings"
	"testing"

	"github.com/llir/llvm/ir/constant"
	"github.com/llir/llvm/ir/metadata"
	"github.com/llir/llvm/ir/types"
	"github.com/llir/llvm/ir/value"
)

type verifC19Writer struct {
	limit     int  // bytes accepted before failing (-1: never fails)
	short     bool // fail with a short write (accept what fits) instead of rejecting the whole chunk
	got       []byte
	calls     int
	failed    bool
	afterFail int
	firstErr  error
}

func (w *verifC19Writer) Write(p []byte) (int, error) {
	w.calls++
	if w.failed {
		w.afterFail++
		return 0, errors.New("write after failure")
	}
	if w.limit >= 0 && len(w.got)+len(p) > w.limit {
		n := 0
		if w.short {
			n = w.limit - len(w.got)
			w.got = append(w.got, p[:n]...)
		}
		w.failed = true
		w.firstErr = fmt.Errorf("disk full at %d", w.limit)
		return n, w.firstErr
	}
	w.got = append(w.got, p...)
	return len(p), nil
}

func verifC19Module(variant int) *Module {
	m := NewModule()
	if variant&1 != 0 {
		m.SourceFilename = "a.c"
		m.TargetTriple = "x86_64"
	}
	if variant&2 != 0 {
		m.TypeDefs = append(m.TypeDefs, func() types.Type { s := types.NewStruct(types.I32); s.TypeName = "t"; return s }())
		m.NewGlobalDef("g", constant.NewInt(types.I32, 1))
	}
	if variant&4 != 0 {
		f := m.NewFunc("f", types.I32, NewParam("x", types.I32))
		b := f.NewBlock("")
		b.NewRet(b.NewAdd(f.Params[0], f.Params[0]))
		m.NewFunc("decl", types.Void)
	}
	if variant&8 != 0 {
		tup := &metadata.Tuple{MetadataID: -1, Fields: []metadata.Field{&metadata.String{Value: "x"}}}
		m.MetadataDefs = append(m.MetadataDefs, tup)
		m.NamedMetadataDefs["n"] = &metadata.NamedDef{Name: "n", Nodes: []metadata.Node{tup}}
		m.NamedMetadataDefs["a10"] = &metadata.NamedDef{Name: "a10", Nodes: []metadata.Node{tup}}
		m.NamedMetadataDefs["a9"] = &metadata.NamedDef{Name: "a9", Nodes: []metadata.Node{tup}}
	}
	return m
}

func TestVerifC19(t *testing.T) {
	bound, _ := strconv.Atoi(os.Getenv("VERIF_BOUND"))
	if bound <= 0 {
		bound = 16
	}
	cases, fails := 0, 0
	fail := func(f string, a ...interface{}) {
		fails++
		if fails <= 20 {
			fmt.Printf("REPLAY-FAIL %s\n", fmt.Sprintf(f, a...))
		}
	}
	for variant := 0; variant < bound && variant < 16; variant++ {
		want := verifC19Module(variant).String()
		// never-failing writer
		w := &verifC19Writer{limit: -1}
		n, err := verifC19Module(variant).WriteTo(w)
		cases++
		if err != nil || int(n) != len(want) || string(w.got) != want {
			fail("variant %d: non-failing writer: n=%d err=%v, want %d bytes equal to String()", variant, n, err, len(want))
		}
		for k := 0; k <= len(want); k++ {
			for _, short := range []bool{false, true} {
				cases++
				w := &verifC19Writer{limit: k, short: short}
				n, err := verifC19Module(variant).WriteTo(w)
				desc := fmt.Sprintf("variant %d, writer failing at offset %d (short=%v)", variant, k, short)
				if int(n) != len(w.got) {
					fail("%s: reported n=%d but the writer accepted %d bytes", desc, n, len(w.got))
				}
				if err != w.firstErr {
					fail("%s: reported err=%v, first error of the writer was %v", desc, err, w.firstErr)
				}
				if w.afterFail != 0 {
					fail("%s: %d Write calls after the failure", desc, w.afterFail)
				}
				if string(w.got) != want[:len(w.got)] {
					fail("%s: delivered bytes are not a prefix of String()", desc)
				}
				if short && k < len(want) && len(w.got) != k {
					fail("%s: %d bytes delivered, want exactly %d", desc, len(w.got), k)
				}
			}
		}
		if variant == 7 {
			fmt.Printf("REPLAY-SAMPLE variant %d: %d bytes, failure injected at every offset 0..%d with and without short writes\n", variant, len(want), len(want))
		}
	}
	// large printed units (a function body and a module-level asm string of several KiB each): writers that buffer
	// or bypass a buffer by size behave differently here; failure offsets sampled (every 53rd byte and around the
	// multiples of 512)
	big := func() *Module {
		m := NewModule()
		m.ModuleAsms = append(m.ModuleAsms, strings.Repeat("nop; ", 1200))
		f := m.NewFunc("big", types.I32, NewParam("x", types.I32))
		b := f.NewBlock("")
		var v value.Value = f.Params[0]
		for i := 0; i < 300; i++ {
			v = b.NewAdd(v, f.Params[0])
		}
		b.NewRet(v)
		m.NewGlobalDef("g", constant.NewInt(types.I32, 1))
		return m
	}
	want := big().String()
	var offs []int
	for k := 0; k <= len(want); k += 53 {
		offs = append(offs, k)
	}
	for k := 512; k < len(want); k += 512 {
		offs = append(offs, k-1, k, k+1)
	}
	offs = append(offs, len(want)-1, len(want))
	for _, k := range offs {
		for _, short := range []bool{false, true} {
			cases++
			w := &verifC19Writer{limit: k, short: short}
			n, err := big().WriteTo(w)
			desc := fmt.Sprintf("large units (%d bytes), writer failing at offset %d (short=%v)", len(want), k, short)
			if int(n) != len(w.got) {
				fail("%s: reported n=%d but the writer accepted %d bytes", desc, n, len(w.got))
			}
			if err != w.firstErr {
				fail("%s: reported err=%v, first error of the writer was %v", desc, err, w.firstErr)
			}
			if w.afterFail != 0 {
				fail("%s: %d Write calls after the failure", desc, w.afterFail)
			}
			if string(w.got) != want[:len(w.got)] {
				fail("%s: delivered bytes are not a prefix of String()", desc)
			}
			if short && k < len(want) && len(w.got) != k {
				fail("%s: %d bytes delivered, want exactly %d", desc, len(w.got), k)
			}
		}
	}
	fmt.Printf("REPLAY-CASES %d\n", cases)
	if fails > 0 {
		t.Fatalf("%d failures", fails)
	}
}
