package ir

// Bounded stand-in / witness search for property C17 (go test -overlay):
// metadata ID assignment over all configurations of explicit, sparse and
// unassigned IDs of up to `bound` definitions.

import (
	"fmt"
	"os"
	"strconv"
	"strings"
	"testing"

	"github.com/llir/llvm/ir/metadata"
)

func TestVerifC17(t *testing.T) {
	bound, _ := strconv.Atoi(os.Getenv("VERIF_BOUND"))
	if bound <= 0 {
		bound = 5
	}
	cases, fails := 0, 0
	fail := func(f string, a ...interface{}) {
		fails++
		if fails <= 20 {
			fmt.Printf("REPLAY-FAIL %s\n", fmt.Sprintf(f, a...))
		}
	}
	choices := []int64{-1, 0, 1, 2, 4, 7}
	var cfg []int64
	var rec func(n int)
	run := func(ids []int64) {
		cases++
		m := NewModule()
		var defs []metadata.Definition
		for i, id := range ids {
			var d metadata.Definition
			if i%2 == 0 {
				tup := &metadata.Tuple{MetadataID: metadata.MetadataID(id)}
				tup.Fields = []metadata.Field{&metadata.String{Value: fmt.Sprintf("f%d", i)}}
				d = tup
			} else {
				d = &metadata.DIFile{MetadataID: metadata.MetadataID(id), Filename: fmt.Sprintf("f%d.c", i), Directory: "/"}
			}
			defs = append(defs, d)
		}
		m.MetadataDefs = defs
		// a named node referencing all definitions
		nd := &metadata.NamedDef{Name: "all"}
		for _, d := range defs {
			nd.Nodes = append(nd.Nodes, d)
		}
		m.NamedMetadataDefs["all"] = nd
		dup := false
		seen := map[int64]bool{}
		for _, id := range ids {
			if id != -1 {
				if seen[id] {
					dup = true
				}
				seen[id] = true
			}
		}
		desc := fmt.Sprint(ids)
		var err error
		func() {
			defer func() {
				if e := recover(); e != nil {
					err = fmt.Errorf("panic: %v", e)
				}
			}()
			err = m.AssignMetadataIDs()
		}()
		if dup {
			if err == nil {
				fail("ids %s: duplicate explicit IDs accepted", desc)
			}
			return
		}
		if err != nil {
			fail("ids %s: %v", desc, err)
			return
		}
		// explicit kept, all distinct, unnumbered get the smallest unused in order
		next := int64(0)
		got := map[int64]int{}
		for i, d := range defs {
			id := d.ID()
			if j, ok := got[id]; ok {
				fail("ids %s: definitions #%d and #%d both have !%d", desc, j, i, id)
			}
			got[id] = i
			if ids[i] != -1 {
				if id != ids[i] {
					fail("ids %s: explicit !%d of #%d changed to !%d", desc, ids[i], i, id)
				}
				continue
			}
			for seen[next] {
				next++
			}
			if id != next {
				fail("ids %s: unnumbered #%d got !%d, smallest unused is !%d", desc, i, id, next)
			}
			next++
		}
		// printing: every reference prints the ID of its node; printing twice is stable
		s1 := m.String()
		s2 := m.String()
		if s1 != s2 {
			fail("ids %s: printing twice differs", desc)
		}
		var refs []string
		for _, d := range defs {
			refs = append(refs, fmt.Sprintf("!%d", d.ID()))
		}
		if want := "!all = !{" + strings.Join(refs, ", ") + "}"; !strings.Contains(s1, want) {
			fail("ids %s: named metadata does not reference the nodes by their IDs (%s)", desc, want)
		}
		for _, d := range defs {
			if strings.Count(s1, fmt.Sprintf("\n!%d = ", d.ID())) != 1 {
				fail("ids %s: definition !%d printed %d times", desc, d.ID(), strings.Count(s1, fmt.Sprintf("\n!%d = ", d.ID())))
			}
		}
		if cases == 300 {
			fmt.Printf("REPLAY-SAMPLE ids %s -> %v\n", desc, refs)
		}
	}
	rec = func(n int) {
		run(append([]int64{}, cfg...))
		if n == 0 {
			return
		}
		for _, c := range choices {
			cfg = append(cfg, c)
			rec(n - 1)
			cfg = cfg[:len(cfg)-1]
		}
	}
	rec(bound)
	fmt.Printf("REPLAY-CASES %d\n", cases)
	if fails > 0 {
		t.Fatalf("%d failures", fails)
	}
}
