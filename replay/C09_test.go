package constant

// Replay / witness-search harness for property C09 (go test -overlay).

import (
	"fmt"
	"math/big"
	"os"
	"strconv"
	"strings"
	"testing"

	"github.com/llir/llvm/ir/types"
)

func TestVerifC09(t *testing.T) {
	bound, _ := strconv.Atoi(os.Getenv("VERIF_BOUND"))
	if bound <= 0 {
		bound = 10
	}
	cases, fails := 0, 0
	fail := func(f string, a ...interface{}) {
		fails++
		if fails <= 20 {
			fmt.Printf("REPLAY-FAIL %s\n", fmt.Sprintf(f, a...))
		}
	}
	parse := func(typ *types.IntType, s string) (v *big.Int, err error) {
		defer func() {
			if e := recover(); e != nil {
				err = fmt.Errorf("panic: %v", e)
			}
		}()
		c, err := NewIntFromString(typ, s)
		if err != nil {
			return nil, err
		}
		return c.X, nil
	}
	ident := func(c *Int) (s string, err error) {
		defer func() {
			if e := recover(); e != nil {
				err = fmt.Errorf("panic: %v", e)
			}
		}()
		return c.Ident(), nil
	}
	check := func(w uint64, x *big.Int) {
		typ := types.NewInt(w)
		cases++
		// printer -> parser
		s, err := ident(&Int{Typ: typ, X: x})
		if err != nil {
			fail("print i%d %v: %v", w, x, err)
			return
		}
		got, err := parse(typ, s)
		if err != nil {
			fail("roundtrip i%d %v printed %q: %v", w, x, s, err)
			return
		}
		same := got.Cmp(x) == 0
		if w == 1 {
			same = got.Bit(0) == x.Bit(0)
		}
		if !same {
			fail("roundtrip i%d %v printed %q parsed %v", w, x, s, got)
		}
		// every accepted notation denotes the value
		abs := new(big.Int).Abs(x)
		neg := x.Sign() < 0
		sign := ""
		if neg {
			sign = "-"
		}
		notations := map[string]*big.Int{
			sign + abs.Text(10):        x,
			sign + "0" + abs.Text(10):  x,
			sign + "00" + abs.Text(10): x,
		}
		if !neg {
			notations["u0x"+abs.Text(16)] = x
			notations["u0x"+strings.ToUpper(abs.Text(16))] = x
			notations["u0x0"+abs.Text(16)] = x
		}
		// two's complement
		mod := new(big.Int).Lsh(big.NewInt(1), uint(w))
		tc := new(big.Int).Mod(x, mod)
		want := new(big.Int).Set(tc)
		if tc.Bit(int(w)-1) == 1 {
			want.Sub(tc, mod)
		}
		notations["s0x"+tc.Text(16)] = want
		notations["s0x"+strings.ToUpper(tc.Text(16))] = want
		for n, wv := range notations {
			if w == 1 {
				continue
			}
			cases++
			g, err := parse(typ, n)
			if err != nil {
				fail("notation i%d %q: %v", w, n, err)
				continue
			}
			if g.Cmp(wv) != 0 {
				fail("notation i%d %q parsed %v want %v", w, n, g, wv)
			}
		}
	}
	// exhaustive small widths
	for w := uint64(1); w <= uint64(bound); w++ {
		lo := new(big.Int).Neg(new(big.Int).Lsh(big.NewInt(1), uint(w-1)))
		hi := new(big.Int).Lsh(big.NewInt(1), uint(w))
		if w == 1 {
			for _, v := range []int64{-1, 0, 1} {
				check(w, big.NewInt(v))
			}
			continue
		}
		for x := new(big.Int).Set(lo); x.Cmp(hi) < 0; x.Add(x, big.NewInt(1)) {
			check(w, new(big.Int).Set(x))
		}
	}
	// boundaries of large widths, incl. hex-friendly values
	for _, w := range []uint64{16, 31, 32, 33, 63, 64, 65, 100, 128, 1024} {
		one := big.NewInt(1)
		p := new(big.Int).Lsh(one, uint(w))
		h := new(big.Int).Lsh(one, uint(w-1))
		for _, x := range []*big.Int{big.NewInt(0), big.NewInt(4095), big.NewInt(4096), big.NewInt(0xFFFF), big.NewInt(0x10000), new(big.Int).Sub(h, one), new(big.Int).Neg(h), new(big.Int).Sub(p, one), new(big.Int).Sub(new(big.Int).Neg(h), big.NewInt(0).Neg(one))} {
			check(w, x)
		}
	}
	// booleans by keyword
	for _, kv := range []struct {
		s string
		v int64
	}{{"true", 1}, {"false", 0}} {
		cases++
		g, err := parse(types.I1, kv.s)
		if err != nil || g.Int64() != kv.v {
			fail("keyword %q: %v %v", kv.s, g, err)
		}
	}
	fmt.Printf("REPLAY-SAMPLE i8 -128 prints %q\n", (&Int{Typ: types.I8, X: big.NewInt(-128)}).Ident())
	fmt.Printf("REPLAY-CASES %d\n", cases)
	if fails > 0 {
		t.Fatalf("%d failures", fails)
	}
}
