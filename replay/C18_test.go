package asm

// Exhaustive check for property C18 over the finite keyword domain
// (go test -overlay). The table of enumerated types, their parsing functions
// and all declared constants is generated from go/types on every run.

import (
	"fmt"
	"strings"
	"testing"

	asmenum "github.com/llir/llvm/asm/enum"
	"github.com/llir/llvm/ir"
	"github.com/llir/llvm/ir/constant"
	"github.com/llir/llvm/ir/enum"
	"github.com/llir/llvm/ir/metadata"
	"github.com/llir/llvm/ir/types"
)

type verifC18Const struct {
	name string
	str  string
	val  uint64
}

type verifC18Enum struct {
	typ    string
	parse  func(string) uint64
	consts []verifC18Const
}

var verifC18Enums = []verifC18Enum{
	/*ENUMS*/
}

func TestVerifC18(t *testing.T) {
	cases, fails := 0, 0
	fail := func(f string, a ...interface{}) {
		fails++
		if fails <= 40 {
			fmt.Printf("REPLAY-FAIL %s\n", fmt.Sprintf(f, a...))
		}
	}
	// 1. every declared constant of every enumerated type round-trips; no two values share a keyword
	for _, e := range verifC18Enums {
		byStr := map[string]uint64{}
		for _, c := range e.consts {
			cases++
			var got uint64
			var perr interface{}
			func() {
				defer func() { perr = recover() }()
				got = e.parse(c.str)
			}()
			if perr != nil {
				fail("keyword %s.%s prints %q which the parser rejects: %v", e.typ, c.name, c.str, perr)
				continue
			}
			if got != c.val {
				fail("keyword %s.%s (=%d) prints %q which parses back to %d", e.typ, c.name, c.val, c.str, got)
			}
			if v, ok := byStr[c.str]; ok && v != c.val {
				fail("keyword %q of %s denotes both %d and %d", c.str, e.typ, v, c.val)
			}
			byStr[c.str] = c.val
		}
	}
	fmt.Printf("REPLAY-SAMPLE %d enumerated types, e.g. %s %q\n", len(verifC18Enums), verifC18Enums[0].consts[0].name, verifC18Enums[0].consts[0].str)
	// 2. flag sets and hand-written printers, through print and parse of a module
	roundtrip := func(desc string, build func(m *ir.Module), check func(m *ir.Module) string) {
		cases++
		defer func() {
			if e := recover(); e != nil {
				fail("%s: panic: %v", desc, e)
			}
		}()
		m := ir.NewModule()
		build(m)
		text := m.String()
		m2, err := ParseString("c18.ll", text)
		if err != nil {
			fail("%s: printed module does not parse: %v\n%s", desc, err, text)
			return
		}
		if msg := check(m2); msg != "" {
			fail("%s: %s (printed: %s)", desc, msg, strings.TrimSpace(text))
		}
	}
	flagBits := func(e string) []uint64 {
		var out []uint64
		for _, en := range verifC18Enums {
			if en.typ != e {
				continue
			}
			seen := map[uint64]bool{}
			for _, c := range en.consts {
				if c.val != 0 && c.val&(c.val-1) == 0 && !seen[c.val] {
					seen[c.val] = true
					out = append(out, c.val)
				}
			}
		}
		return out
	}
	sets := func(bits []uint64) []uint64 {
		var out []uint64
		all := uint64(0)
		for i, a := range bits {
			out = append(out, a)
			all |= a
			for _, b := range bits[i+1:] {
				out = append(out, a|b)
			}
		}
		out = append(out, all)
		for i := 0; i+2 < len(bits); i += 2 {
			out = append(out, bits[i]|bits[i+1]|bits[i+2])
		}
		return out
	}
	sp := func(m *ir.Module) *metadata.DISubprogram {
		for _, d := range m.MetadataDefs {
			if s, ok := d.(*metadata.DISubprogram); ok {
				return s
			}
		}
		return nil
	}
	for _, fl := range sets(flagBits("DIFlag")) {
		fl := enum.DIFlag(fl)
		roundtrip(fmt.Sprintf("DIFlag set %#x", uint64(fl)), func(m *ir.Module) {
			m.MetadataDefs = append(m.MetadataDefs, &metadata.DISubprogram{MetadataID: -1, Name: "f", Flags: fl})
		}, func(m *ir.Module) string {
			if s := sp(m); s == nil || s.Flags != fl {
				return fmt.Sprintf("flags parsed back as %#x", uint64(sp(m).Flags))
			}
			return ""
		})
	}
	for _, fl := range sets(flagBits("DISPFlag")) {
		fl := enum.DISPFlag(fl)
		roundtrip(fmt.Sprintf("DISPFlag set %#x", uint64(fl)), func(m *ir.Module) {
			m.MetadataDefs = append(m.MetadataDefs, &metadata.DISubprogram{MetadataID: -1, Name: "f", SPFlags: fl})
		}, func(m *ir.Module) string {
			if s := sp(m); s == nil || s.SPFlags != fl {
				return fmt.Sprintf("spFlags parsed back as %#x", uint64(sp(m).SPFlags))
			}
			return ""
		})
	}
	// 2b. every defined value of the two debug-info flag types -- the combined ones too (DIFlagVirtualInheritance,
	// DIFlagIndirectVirtualBase, ...), which the library's own set printer spells as their members -- written with
	// the keyword its String method gives, through the parser of a module (irDIFlags / irDISPFlags)
	for _, en := range verifC18Enums {
		if en.typ != "DIFlag" && en.typ != "DISPFlag" {
			continue
		}
		field := "flags"
		if en.typ == "DISPFlag" {
			field = "spFlags"
		}
		for _, c := range en.consts {
			cases++
			c := c
			func() {
				defer func() {
					if e := recover(); e != nil {
						fail("%s keyword %s: the parser of a module panics: %v", en.typ, c.str, e)
					}
				}()
				text := fmt.Sprintf("!0 = !DISubprogram(name: \"f\", %s: %s)\n", field, c.str)
				m2, err := ParseString("c18.ll", text)
				if err != nil {
					fail("%s keyword %s (the String of %s) is rejected by the parser of a module: %v", en.typ, c.str, c.name, err)
					return
				}
				s := sp(m2)
				if s == nil {
					fail("%s keyword %s: subprogram lost", en.typ, c.str)
					return
				}
				got := uint64(s.Flags)
				if en.typ == "DISPFlag" {
					got = uint64(s.SPFlags)
				}
				if got != c.val {
					fail("%s keyword %s (=%#x) is read by the parser of a module as %#x", en.typ, c.str, c.val, got)
				}
			}()
		}
	}
	// 2c. the legacy virtuality field next to a set of subprogram flags: both are printed and read back as they are
	for _, virt := range []enum.DwarfVirtuality{enum.DwarfVirtualityVirtual, enum.DwarfVirtualityPureVirtual} {
		for _, fl := range sets(flagBits("DISPFlag")) {
			fl := enum.DISPFlag(fl)
			virt := virt
			roundtrip(fmt.Sprintf("DISubprogram virtuality %d with DISPFlag set %#x", int64(virt), uint64(fl)), func(m *ir.Module) {
				m.MetadataDefs = append(m.MetadataDefs, &metadata.DISubprogram{MetadataID: -1, Name: "f", Virtuality: virt, SPFlags: fl})
			}, func(m *ir.Module) string {
				if s := sp(m); s == nil || s.SPFlags != fl || s.Virtuality != virt {
					return fmt.Sprintf("parsed back as virtuality %d, spFlags %#x", int64(sp(m).Virtuality), uint64(sp(m).SPFlags))
				}
				return ""
			})
		}
	}
	// 2d. function attribute keywords in attribute groups defined in several pieces (the pieces are merged): every
	// ordered pair of keywords, one per piece, is read back as exactly those two values
	for _, en := range verifC18Enums {
		if en.typ != "FuncAttr" {
			continue
		}
		has := func(m *ir.Module, v uint64) bool {
			for _, g := range m.AttrGroupDefs {
				for _, a := range g.FuncAttrs {
					if fa, ok := a.(enum.FuncAttr); ok && uint64(fa) == v {
						return true
					}
				}
			}
			return false
		}
		parse := func(text string) (m *ir.Module, err error) {
			defer func() {
				if e := recover(); e != nil {
					err = fmt.Errorf("panic: %v", e)
				}
			}()
			return ParseString("c18.ll", text)
		}
		var ok []int
		for i, c := range en.consts {
			// keywords that are read back as the plain FuncAttr value when written alone (uwtable, for one, is not)
			if m, err := parse(fmt.Sprintf("attributes #0 = { %s }\n", c.str)); err == nil && has(m, c.val) {
				ok = append(ok, i)
			}
		}
		for _, i := range ok {
			for _, j := range ok {
				a, b := en.consts[i], en.consts[j]
				cases++
				m, err := parse(fmt.Sprintf("attributes #0 = { %s }\nattributes #0 = { %s }\n", a.str, b.str))
				if err != nil {
					fail("attribute group in two pieces { %s } { %s }: %v", a.str, b.str, err)
					continue
				}
				if !has(m, a.val) || !has(m, b.val) {
					fail("attribute group in two pieces { %s } { %s }: read back as %v", a.str, b.str, m.AttrGroupDefs[0].FuncAttrs)
				}
			}
		}
	}
	for _, k := range sets(flagBits("AllocKind")) {
		k := enum.AllocKind(k)
		roundtrip(fmt.Sprintf("AllocKind set %#x", uint64(k)), func(m *ir.Module) {
			f := m.NewFunc("f", types.Void)
			f.FuncAttrs = append(f.FuncAttrs, ir.AllocKind{Kind: k})
		}, func(m *ir.Module) string {
			for _, a := range m.Funcs[0].FuncAttrs {
				var got enum.AllocKind
				switch ak := a.(type) {
				case ir.AllocKind:
					got = ak.Kind
				case *ir.AllocKind:
					got = ak.Kind
				default:
					continue
				}
				if got != k {
					return fmt.Sprintf("allockind parsed back as %#x", uint64(got))
				}
				return ""
			}
			return "allockind attribute lost"
		})
	}
	for _, en := range verifC18Enums {
		switch en.typ {
		case "CallingConv":
			for _, c := range en.consts {
				cc := enum.CallingConv(c.val)
				roundtrip("calling convention "+c.name, func(m *ir.Module) {
					f := m.NewFunc("f", types.Void)
					f.CallingConv = cc
				}, func(m *ir.Module) string {
					if got := m.Funcs[0].CallingConv; got != cc {
						return fmt.Sprintf("parsed back as %d", got)
					}
					return ""
				})
			}
			// every calling-convention number of LLVM's range, keyword or not (numeric form `cc N`), incl. the
			// conventions declared as untyped constants (absent from the generated tables)
			for v := 1; v <= 1023; v++ {
				cc := enum.CallingConv(v)
				roundtrip(fmt.Sprintf("calling convention number %d", v), func(m *ir.Module) {
					f := m.NewFunc("f", types.Void)
					f.CallingConv = cc
				}, func(m *ir.Module) string {
					if got := m.Funcs[0].CallingConv; got != cc {
						return fmt.Sprintf("parsed back as %d", got)
					}
					return ""
				})
			}
		case "UnwindTableKind":
			// the uwtable function attribute has a hand-written printer around the kind
			for _, c := range en.consts {
				k := enum.UnwindTableKind(c.val)
				roundtrip("uwtable kind "+c.name, func(m *ir.Module) {
					f := m.NewFunc("f", types.Void)
					f.FuncAttrs = append(f.FuncAttrs, ir.UnwindTable{Kind: k})
				}, func(m *ir.Module) string {
					for _, a := range m.Funcs[0].FuncAttrs {
						switch u := a.(type) {
						case ir.UnwindTable:
							if u.Kind != k {
								return fmt.Sprintf("uwtable kind parsed back as %v", u.Kind)
							}
							return ""
						case *ir.UnwindTable:
							if u.Kind != k {
								return fmt.Sprintf("uwtable kind parsed back as %v", u.Kind)
							}
							return ""
						}
					}
					return "uwtable attribute lost"
				})
			}
		case "TLSModel":
			for _, c := range en.consts {
				tm := enum.TLSModel(c.val)
				roundtrip("TLS model "+c.name, func(m *ir.Module) {
					g := m.NewGlobalDef("g", constant.NewInt(types.I32, 1))
					g.TLSModel = tm
				}, func(m *ir.Module) string {
					if got := m.Globals[0].TLSModel; got != tm {
						return fmt.Sprintf("parsed back as %d", got)
					}
					return ""
				})
			}
		}
	}
	fmt.Printf("REPLAY-CASES %d\n", cases)
	if fails > 0 {
		t.Fatalf("%d failures", fails)
	}
}
