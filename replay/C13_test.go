package ir

// Concurrent-printer replay for property C13 (go test -race -overlay).

import (
	"fmt"
	"os"
	"strconv"
	"sync"
	"testing"

	"github.com/llir/llvm/ir/constant"
	"github.com/llir/llvm/ir/metadata"
	"github.com/llir/llvm/ir/types"
)

func verifC13Module(k int) *Module {
	m := NewModule()
	for i := 0; i < 3; i++ {
		m.NewGlobalDef("", constant.NewInt(types.I32, int64(i)))
	}
	m.NewGlobalDef("named", constant.NewInt(types.I32, 7))
	for fi := 0; fi < 3; fi++ {
		name := ""
		if fi == 1 {
			name = "g"
		}
		f := m.NewFunc(name, types.I32, NewParam("", types.I32), NewParam("p", types.I32))
		b := f.NewBlock("")
		x := b.NewAdd(f.Params[0], f.Params[1])
		y := b.NewMul(x, x)
		c := b.NewICmp(1, y, x)
		nb := f.NewBlock("")
		nb2 := f.NewBlock("exit")
		b.NewCondBr(c, nb, nb2)
		z := nb.NewSub(y, x)
		nb.NewRet(z)
		nb2.NewRet(y)
		if fi == 2 {
			y.Metadata = append(y.Metadata, &metadata.Attachment{Name: "dbg", Node: &metadata.Tuple{MetadataID: -1}})
		}
	}
	for i := 0; i < k; i++ {
		tup := &metadata.Tuple{MetadataID: -1, Fields: []metadata.Field{&metadata.String{Value: fmt.Sprint(i)}}}
		m.MetadataDefs = append(m.MetadataDefs, tup)
	}
	m.MetadataDefs = append(m.MetadataDefs, &metadata.Tuple{MetadataID: 3})
	nd := &metadata.NamedDef{Name: "all"}
	for _, d := range m.MetadataDefs {
		nd.Nodes = append(nd.Nodes, d)
	}
	m.NamedMetadataDefs["all"] = nd
	return m
}

func TestVerifC13(t *testing.T) {
	bound, _ := strconv.Atoi(os.Getenv("VERIF_BOUND"))
	if bound <= 0 {
		bound = 60
	}
	cases, fails := 0, 0
	for round := 0; round < bound; round++ {
		for _, mode := range []string{"module", "funcs", "mixed-after-print"} {
			cases++
			m := verifC13Module(16)
			want := verifC13Module(16).String()
			if mode == "mixed-after-print" {
				_ = m.String()
			}
			var wg sync.WaitGroup
			outs := make([]string, 8)
			for i := 0; i < 8; i++ {
				wg.Add(1)
				go func(i int) {
					defer wg.Done()
					switch {
					case mode == "module" || i%2 == 0 && mode != "funcs":
						outs[i] = m.String()
					default:
						// function-level printers (same level for all goroutines in "funcs" mode)
						f := m.Funcs[i%len(m.Funcs)]
						_ = f.LLString()
						if mode == "mixed-after-print" {
							_ = f.Blocks[0].LLString()
							_ = f.Blocks[0].Insts[0].LLString()
						}
					}
				}(i)
			}
			wg.Wait()
			for i, o := range outs {
				if o != "" && o != want {
					fails++
					fmt.Printf("REPLAY-FAIL mode=%s round=%d: goroutine %d printed different text than a lone sequential call\n", mode, round, i)
					break
				}
			}
		}
	}
	fmt.Printf("REPLAY-SAMPLE 8 goroutines, modes module / funcs / mixed-after-print, module of %d bytes\n", len(verifC13Module(16).String()))
	fmt.Printf("REPLAY-CASES %d\n", cases)
	if fails > 0 {
		t.Fatalf("%d failures", fails)
	}
}


// TestVerifC13FuncAndModule: a function printer next to a module printer on a never-printed module (the function
// printer reads the function's global ID without the module lock while the module printer assigns it).
func TestVerifC13FuncAndModule(t *testing.T) { verifC13Entry(t, "func+module") }

// TestVerifC13BlockAndFunc: a block printer next to a function printer on a never-printed function (the block
// printer never takes the function lock under which the local IDs are assigned).
func TestVerifC13BlockAndFunc(t *testing.T) { verifC13Entry(t, "block+func") }

func verifC13Entry(t *testing.T, mode string) {
	bound, _ := strconv.Atoi(os.Getenv("VERIF_BOUND"))
	if bound <= 0 {
		bound = 40
	}
	cases := 0
	for round := 0; round < bound; round++ {
		cases++
		m := verifC13Module(16)
		f := m.Funcs[0] // unnamed function with unnamed blocks
		var wg sync.WaitGroup
		start := make(chan struct{})
		for i := 0; i < 4; i++ {
			wg.Add(1)
			go func(i int) {
				defer wg.Done()
				defer func() { recover() }()
				<-start
				switch {
				case mode == "func+module" && i%2 == 0:
					_ = m.String()
				case mode == "func+module":
					_ = f.LLString()
				case i%2 == 0:
					_ = f.LLString()
				default:
					_ = f.Blocks[1].LLString()
				}
			}(i)
		}
		close(start)
		wg.Wait()
	}
	fmt.Printf("REPLAY-SAMPLE 4 goroutines, mode %s, never-printed module\n", mode)
	fmt.Printf("REPLAY-CASES %d\n", cases)
}
