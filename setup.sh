#!/bin/bash
# Builds the verifier offline from files on disk only.
set -e
cd "$(dirname "$0")"
export GOFLAGS=-mod=mod GOPROXY=off GOSUMDB=off GOTOOLCHAIN=local
mkdir -p bin evidence work
go build -o bin/govc ./cmd/govc
